"""Per-property workload plans: which sub-workloads run under which monitor
configuration, with what budgets.  `cases` / `ms` are per shard."""

RANDOM_ZOO_COUNT = 160

NATIVE = ["debug", "release"]


def plan(prop, tier):
    q = tier == "quick"
    f = PLANS.get(prop)
    return f(q) if f else None


def c01(q):
    return {
        "level": "exploration",
        "rule": ("cases = (shape from the zoo, byte string, address offset): random / small-valued random bytes, valid reference images, "
                 "their truncations, extensions, single and double header mutations (length, tag, offset, bool, utf-8), byte flips; plus an "
                 "exhaustive sweep of every length 0..MIN_SIZE+3*ALIGN+elem x every address offset 0..ALIGN per shape. "
                 "validate / from_bytes / from_mut_bytes run under catch_unwind in tail/island guarded buffers; natively (debug+release), under Miri "
                 "(byte-precise out-of-slice detection)" + ("" if q else ", ASan and memcheck") + ". A case is non-trivial when the input passed the "
                 "top-level size/alignment gate of its type (unchecked code ran); distinct = distinct (shape, input class, length class, bytes)."),
        "exhaustive_note": "the 'sweep' sub-workload enumerates its (shape, length, offset) space completely; contents are sampled",
        "gates": ["passed-gate", "outcome:ok", "outcome:err"],
        "jobs": [
            {"sub": "sweep", "cfgs": ["debug", "release"], "cases": 1_000_000, "ms": 0, "shards": 8},
            {"sub": "random", "cfgs": ["debug", "release"], "cases": 120_000 if q else 2_000_000, "ms": 40_000 if q else 400_000},
            {"sub": "random", "cfgs": ["miri"], "cases": 1500 if q else 30_000, "ms": 50_000 if q else 600_000, "lite": True, "corpus": True, "wall": 300 if q else 1500},
        ] + ([] if q else [
            {"sub": "random", "cfgs": ["miri-tb"], "cases": 10_000, "ms": 300_000, "lite": True, "corpus": True, "wall": 900},
            {"sub": "random", "cfgs": ["asan"], "cases": 300_000, "ms": 200_000, "lite": True},
            {"sub": "random", "cfgs": ["memcheck"], "cases": 20_000, "ms": 200_000, "lite": True, "shards": 8},
        ]),
    }


def c02(q):
    return {
        "level": "exploration",
        "rule": ("same input space as C01; every from_bytes result is compared with an independent three-valued reference decoder "
                 "(must-accept / must-reject by cause / may: only trailing padding missing) and every accepted view is walked through the safe "
                 "accessors (addresses inside the slice, len <= capacity, own bytes revalidate, content == reference decoding). "
                 "Non-trivial = passed the size/alignment gate; distinct = distinct (shape, input class, length class, bytes)."),
        "gates": ["class:must-accept", "class:must-reject:short", "class:must-reject:tag", "class:must-reject:bool", "class:must-reject:utf8", "class:may"],
        "jobs": [
            {"sub": "sweep", "cfgs": ["debug"], "cases": 1_000_000, "ms": 0, "shards": 8},
            {"sub": "random", "cfgs": ["debug", "release"], "cases": 100_000 if q else 1_500_000, "ms": 40_000 if q else 400_000},
            {"sub": "random", "cfgs": ["miri"], "cases": 1200 if q else 20_000, "ms": 50_000 if q else 600_000, "corpus": True, "wall": 300 if q else 1500},
        ],
    }


PLANS = {"C01": c01, "C02": c02}
