"""Per-property workload plans: which sub-workloads run under which monitor
configuration, with what budgets.  `cases` / `ms` are per shard."""

RANDOM_ZOO_COUNT = 160

NATIVE = ["debug", "release"]


# time budgets of the thorough tier are written for a ~27 min check; the scale keeps all twenty inside one night
THOROUGH_TIME_SCALE = 0.7


def plan(prop, tier):
    q = tier == "quick"
    f = PLANS.get(prop)
    if not f:
        return None
    p = f(q)
    if not q:
        for j in p["jobs"]:
            if j.get("ms"):
                j["ms"] = int(j["ms"] * THOROUGH_TIME_SCALE)
    return p


def c01(q):
    return {
        "level": "exploration",
        "rule": ("cases = (shape from the zoo, byte string, address offset): random / small-valued random bytes, valid reference images, "
                 "their truncations, extensions, single and double header mutations (length, tag, offset, bool, utf-8), byte flips; plus an "
                 "exhaustive sweep of every length 0..MIN_SIZE+3*ALIGN+elem x every address offset 0..ALIGN per shape. "
                 "validate / from_bytes / from_mut_bytes run under catch_unwind in tail/island guarded buffers; natively (debug+release), under Miri "
                 "(byte-precise out-of-slice detection)" + ("" if q else ", ASan and memcheck") + ". Island cases are validated again with the bytes around the slice "
                 "replaced by 0x00 and by 0xFF: the answer must be the same (native over-read detector). A case is non-trivial when the input passed the "
                 "top-level size/alignment gate of its type (unchecked code ran); distinct = distinct (shape, input class, length class, bytes)."),
        "exhaustive_note": "the 'sweep' sub-workload enumerates its (shape, length, offset) space completely; contents are sampled",
        "gates": ["passed-gate", "outcome:ok", "outcome:err"],
        "jobs": [
            {"sub": "sweep", "cfgs": ["debug", "release"], "cases": 1_000_000, "ms": 0, "shards": 8},
            {"sub": "random", "cfgs": ["debug", "release"], "cases": 120_000 if q else 2_000_000, "ms": 40_000 if q else 400_000},
            {"sub": "random", "cfgs": ["miri"], "cases": 1500 if q else 30_000, "ms": 50_000 if q else 600_000, "lite": True, "corpus": True, "wall": 600 if q else 1800},
        ] + ([] if q else [
            {"sub": "random", "cfgs": ["miri-tb"], "cases": 10_000, "ms": 300_000, "lite": True, "corpus": True, "wall": 900},
            {"sub": "random", "cfgs": ["asan"], "cases": 300_000, "ms": 200_000, "lite": True},
            {"sub": "random", "cfgs": ["memcheck"], "cases": 20_000, "ms": 200_000, "lite": True, "shards": 8},
        ]),
    }


def c02(q):
    return {
        "level": "exploration",
        "rule": ("same input space as C01; every from_bytes result is compared with an independent three-valued reference decoder "
                 "(must-accept / must-reject by cause / may: only trailing padding missing) and every accepted view is walked through the safe "
                 "accessors (addresses inside the slice, len <= capacity, own bytes revalidate, content == reference decoding). "
                 "Non-trivial = passed the size/alignment gate; distinct = distinct (shape, input class, length class, bytes)."),
        "gates": ["class:must-accept", "class:must-reject:short", "class:must-reject:tag", "class:must-reject:bool", "class:must-reject:utf8", "class:may"],
        "jobs": [
            {"sub": "sweep", "cfgs": ["debug"], "cases": 1_000_000, "ms": 0, "shards": 8},
            {"sub": "random", "cfgs": ["debug", "release"], "cases": 100_000 if q else 1_500_000, "ms": 40_000 if q else 400_000},
            {"sub": "random", "cfgs": ["miri"], "cases": 1200 if q else 20_000, "ms": 50_000 if q else 600_000, "corpus": True, "wall": 600 if q else 1800},
        ],
    }


def _emplace(q, rule, gates, miri_cases=400):
    return {
        "level": "exploration",
        "rule": rule,
        "gates": gates,
        "jobs": [
            {"sub": "random", "cfgs": ["debug", "release"], "cases": 150_000 if q else 3_000_000, "ms": 30_000 if q else 300_000},
            {"sub": "random", "cfgs": ["miri"], "cases": miri_cases if q else 20_000, "ms": 45_000 if q else 600_000, "lite": True, "wall": 600 if q else 1800},
        ] + ([] if q else [
            {"sub": "random", "cfgs": ["miri-tb"], "cases": 10_000, "ms": 300_000, "lite": True, "wall": 900},
            {"sub": "random", "cfgs": ["asan"], "cases": 500_000, "ms": 200_000},
        ]),
    }


def c03(q):
    return _emplace(q, "cases = (shape, generated value, emplacer style, aligned buffer of needed..needed+k bytes pre-filled with garbage, tail/island placement). "
                    "The value is emplaced with the real emplacers (literals, *Init structs/enums, per-variant *Init, FromArray, FromIterator, FromStr, flex FromIterator, Empty); "
                    "oracle: read-back == specified value, own bytes revalidate, every non-padding byte equals the reference encoder's image, size() == reference extent. "
                    "Distinct = distinct (shape, value, style class, buffer class); all cases are non-trivial (unsafe writes happen in each).",
                    ["zone:fits", "outcome:ok"])


def c15(q):
    return _emplace(q, "cases = (shape, value, buffer length n from 0..needed+ALIGN+2 with boundary bias: MIN_SIZE-1, MIN_SIZE, needed-1, needed, needed+1, "
                    "needed-ALIGN, ..., address offset incl. misaligned, API: new_in_place / FlatWrap::new_in_place). Oracle: misaligned -> BadAlign; n < content end -> InsufficientSize; "
                    "floor(n, ALIGN) >= reference extent -> success satisfying the C03 clauses; in between (only padding missing) either. No panic, no write outside the slice. "
                    "Distinct = distinct (shape, zone, length class, value, style).",
                    ["zone:fits", "zone:too-small", "zone:misaligned", "zone:may", "outcome:ok", "outcome:BadAlign", "outcome:InsufficientSize"])


def c17(q):
    pl = _c17_emplace(q)
    pl["jobs"].append({"sub": "pushes", "cfgs": ["debug"], "cases": 6_000 if q else 150_000, "ms": 25_000 if q else 200_000, "args": ["--engine", "hist"]})
    pl["gates"].append("c17:pushed-compared")
    pl["rule"] += (" 'pushes' sub-workload: portable shapes containing a FlexVec are built from their smallest value by FlexVec::push only (no emplacer for the vector) and compared with the same serialiser after every push.")
    return pl


def _c17_emplace(q):
    return _emplace(q, "cases = (portable shape, value, address offset 0..8). Oracle: ALIGN == 1; as_bytes()[..size()] equals a layout-agnostic reference serialiser "
                    "(tag, fields, length, elements in declaration order, fixed byte order; unused bytes of a smaller sized-enum variant are unspecified); value reads back at odd addresses. "
                    "Distinct = distinct (shape, value, offset class).",
                    ["c17:compared"])


def c20(q):
    return _emplace(q, "cases = (defaultable shape, buffer length needed..needed+2*ALIGN+, two different garbage fills, tail/island). Oracle: default_in_place succeeds, reads back the model default "
                    "(zero / empty containers / field-wise / #[default] variant), validates, size() == minimal extent of that state, non-padding bytes identical for both garbage fills and equal to the reference image; for sized types the value read back equals <T as Default>::default(). "
                    "Distinct = distinct (shape, buffer class).",
                    ["c20:compared", "c20:compared-with-Default::default"])


def c04(q):
    return {
        "level": "exploration",
        "rule": ("enumeration of (shape, buffer length) for every zoo shape and, for unsized ones, every length MIN_SIZE..MIN_SIZE+4*ALIGN+2*elem; per pair: ALIGN / SIZE / MIN_SIZE / DATA_OFFSET / "
                 "LAST_FIELD_OFFSET / DATA_MIN_SIZES against the reference C layout, then up to three reference images mapped with from_bytes: align_of_val, size_of_val (== reference, <= slice), "
                 "as_bytes extent, address of every reachable field/element/item vs reference offset. Non-trivial = a value was mapped; distinct = (shape, length, value)."),
        "exhaustive": True,
        "exhaustive_note": "the (shape, length) table is enumerated completely; values per pair are sampled (3)",
        "gates": ["mapped", "consts-checked", "field-addresses-compared"],
        "jobs": [
            {"sub": "table", "cfgs": ["debug", "release"], "cases": 1_000_000, "ms": 0, "shards": 8},
            {"sub": "table", "cfgs": ["miri"], "cases": 1_000_000, "ms": 50_000 if q else 600_000, "wall": 600 if q else 1800},
        ],
    }


def c06(q):
    return {
        "level": "exploration",
        "rule": ("cases = valid message m (first extent bytes of a reference image of a generated value, canonical or terminated FlexVec form) of every zoo shape; per message EVERY cut 0..|m| is validated "
                 "(must be InsufficientSize, or the same content when only trailing padding is missing) and m followed by 6 suffix kinds (1 byte, another message, truncated message, 0xFF.., zeros, garbage) "
                 "must validate to the same content and size(). evaluations = validations performed; distinct = distinct (shape, value) messages; every message is non-trivial."),
        "exhaustive_note": "cuts are exhaustive per message (native); the message space is sampled",
        "gates": ["messages", "prefix:err", "prefix:ok", "suffix-message:ok"],
        "jobs": [
            {"sub": "random", "cfgs": ["debug", "release"], "cases": 60_000 if q else 1_000_000, "ms": 30_000 if q else 300_000},
            {"sub": "random", "cfgs": ["miri"], "cases": 300 if q else 10_000, "ms": 45_000 if q else 600_000, "lite": True, "wall": 600 if q else 1800},
        ],
    }


def c19(q):
    return {
        "level": "exploration",
        "rule": ("cases = valid reference image of a shape with constrained leaves, exactly one constrained field corrupted (Bool -> 2..255, enum tag -> out of range, one string byte -> invalid UTF-8) at a "
                 "position known to the harness; oracle: rejected, with the content kind (InvalidData / InvalidEnumTag) and Error.pos inside the offending byte range computed by the reference decoder "
                 "(any byte of a multi-byte tag, [valid_up_to, +error_len) for UTF-8). Corruptions that stay valid or become structural are skipped and counted. "
                 "Distinct = distinct (shape, kinds along the nesting path, byte offset, corruption type)."),
        "gates": ["corrupt:bool", "corrupt:tag", "corrupt:utf8", "depth:1", "depth:2", "depth:3", "position-correct"],
        "jobs": [
            {"sub": "random", "cfgs": ["debug", "release"], "cases": 150_000 if q else 3_000_000, "ms": 30_000 if q else 300_000},
        ],
    }


def _hist(q, rule, gates, miri_cases=120):
    return {
        "level": "exploration",
        "rule": rule + (" Histories: a value is emplaced into a guarded buffer (needed size + 0..300 bytes slack) and driven through 3..40 (quick) / 3..200 (thorough) operations chosen from the current "
                        "reference-parsed state with boundary-biased arguments; after every step the bytes are parsed by the independent reference parser and compared with the accessors. "
                        "evaluations = operations executed; distinct = distinct (shape, abstract state after the step, operation kind); every step is non-trivial (it runs unsafe in-place code)."),
        "gates": ["histories"] + gates,
        "jobs": [
            {"sub": "random", "cfgs": ["debug", "release"], "cases": 12_000 if q else 300_000, "ms": 35_000 if q else 400_000},
            {"sub": "random", "cfgs": ["miri"], "cases": miri_cases if q else 5_000, "ms": 45_000 if q else 600_000, "lite": True, "wall": 600 if q else 1800},
        ] + ([] if q else [
            {"sub": "random", "cfgs": ["miri-tb"], "cases": 3_000, "ms": 300_000, "lite": True, "wall": 900},
            {"sub": "random", "cfgs": ["asan"], "cases": 100_000, "ms": 200_000},
        ]),
    }


def c05(q):
    return _hist(q, "Oracle: in every reached state size() == extent computed by the reference parser from the value's bytes (end of used data rounded up to ALIGN), size() <= buffer, and the first size() bytes "
                    "copied into a fresh tail-guarded buffer map again to the same content with the same size().", ["op:flex_push:done", "op:push:done", "op:assign:done", "op:flex_pop:done"])


def c11(q):
    return _hist(q, "Oracle: sequential model of a capacity-bounded Vec / String (capacity computed by the reference layout from the bytes available to the container): result of every operation, len, capacity, "
                    "remaining, is_empty, is_full, contents, size(), ==/partial_cmp against twins, validity and re-map equality after every step; documented panics (index out of range, resize beyond capacity) "
                    "are modelled as refusals. One history in 16 first tries to construct the value from an initialiser with more elements than a one-byte length type can count: it must be refused.", ["construct-beyond-length-type-refused", "state:empty", "state:full", "state:len=L::MAX", "twin-compared", "op:push:refused", "op:push_slice:refused", "op:push_str:refused", "op:remove:ret", "op:resize:done"])


def c12(q):
    return _hist(q, "Oracle: sequence model of a FlexVec (push success decided by a reference implementation of the documented offset chain: slot room, item extent, offset representable in L): len, is_empty, "
                    "items in order, size(), validity, re-map equality, bytes of the other items unchanged after every step, including edits inside non-last items.",
                 ["op:flex_push:done", "op:flex_push:refused", "op:flex_pop:done", "op:flex_truncate:done", "pop-or-truncate-on-3+", "edit-inside-item", "refused:FlexVec:offset-not-representable"])


def c13(q):
    return _hist(q, "Workload steered towards refusal (small buffers, fill to full, oversized slices / strings / items, offsets not representable in u8, failing nested emplacers). Oracle: after an Err (or documented panic) "
                    "the value reads the same, size() is the same, it validates, and every non-padding byte of the previous state is unchanged; the history continues and later operations are judged by the models.",
                 ["refused:FlatVec:full", "refused:FlatString:full", "refused:FlexVec:no-room-for-item", "refused:FlexVec:no-room-for-slot", "refused:FlexVec:empty", "refused:FlexVec:offset-not-representable"])


def c14(q):
    pl = _c14_hist(q)
    pl["jobs"].append({"sub": "construct", "cfgs": ["debug", "release"], "cases": 60_000 if q else 1_500_000, "ms": 20_000 if q else 200_000, "args": ["--engine", "emplace"]})
    pl["gates"] += ["c14:construct-tail-bytes-checked", "c14:construct-refused-checked", "c14:construct-misaligned-checked"]
    pl["rule"] += (" 'construct' sub-workload: new_in_place / FlatWrap::new_in_place of generated values into slices of every length around the needed size (too small, exact, "
                   "not a multiple of the alignment) at aligned and misaligned addresses: canaries intact, a misaligned slice is not modified at all, and the bytes behind the last whole "
                   "multiple of the alignment (which no value of the type mapped on that slice covers) keep their contents, also when the construction is refused.")
    return pl


def _c14_hist(q):
    return _hist(q, "All constructing / mutating operations incl. failing ones and field writes, always in island buffers. Oracle: canary bytes around the slice unchanged (native), no access outside the slice (Miri/ASan), "
                    "and the non-padding bytes of every sub-object that is not under the path being changed (sibling fields, other FlexVec items) are unchanged.",
                 ["op:set:done", "op:assign:done", "op:assign:refused", "op:flex_push:done", "op:push:done"])


def c18(q):
    return _hist(q, "Workload: assign_in_place on the root and on nested unsized sub-objects with replacement values from tiny to larger than the target (every variant, every container fill, every emplacer style). Oracle: after Err the "
                    "value validates, parses, reads, measures and can be assigned again without panic; when the cause is room (decided by the reference extent) content, size() and non-padding bytes are unchanged.",
                 ["op:assign:done", "op:assign:refused", "failed-assign-left-unchanged"])


def c07(q):
    return {
        "level": "exploration",
        "rule": ("cases = (message type out of ~25 zoo shapes flagged as messages, sequence of 0..8 (quick) / 0..64 messages, max_msg_len in {largest, +1, x2, x4+3}, write chunk script, read chunk script, "
                 "public io() constructors or monitored IoBuffer wrapper; a third of the cases use the send guard's other paths: message replaced through DerefMut before send(), "
                 "an initialised guard dropped unsent, raw bytes + assume_init(); one case in 16 is a 'trickle': 24+ messages in uninterrupted short writes). 'compose' sub-workload: for small streams (<= 12 bytes) EVERY composition of the stream into read chunks / write chunks (2^(n-1)) is run. "
                 "'threaded': two real threads over a bounded Mutex+Condvar pipe. Oracle: every send Ok, sink == concatenation of reference images (decoded), received sequence == sent sequence then Closed, "
                 "no panic, window start aligned, skip(count) <= occupied. Distinct = distinct (shape, chunk scripts, stream length); every case is non-trivial (bytes cross the pipe)."),
        "exhaustive_note": "chunk compositions are exhaustive for each small stream of the 'compose' sub-workload",
        "gates": ["mode:blocking", "mode:threaded", "compose-cases", "messages-received", "window-observations", "non-default-buffer-capacity", "messages-replaced-through-send-guard", "guards-dropped-unsent", "messages-written-as-raw-bytes", "trickle-cases"],
        "jobs": [
            {"sub": "random", "cfgs": ["debug", "release"], "cases": 40_000 if q else 1_000_000, "ms": 30_000 if q else 300_000},
            {"sub": "compose", "cfgs": ["debug"], "cases": 30_000 if q else 600_000, "ms": 30_000 if q else 300_000},
            {"sub": "threaded", "cfgs": ["debug"], "cases": 200 if q else 5_000, "ms": 20_000 if q else 120_000, "shards": 4},
            {"sub": "random", "cfgs": ["miri"], "cases": 150 if q else 5_000, "ms": 40_000 if q else 600_000, "wall": 600 if q else 1800},
            {"sub": "threaded", "cfgs": ["miri"], "cases": 3 if q else 40, "ms": 40_000 if q else 300_000, "shards": 2, "wall": 600 if q else 1200},
        ],
    }


def c08(q):
    return {
        "level": "exploration",
        "rule": ("as C07 over a bounded in-memory async duplex (capacity 1..1000) driven by a manual executor: the schedule (which task is polled next) and the placement of injected, self-waking Poll::Pending "
                 "results in poll_write / poll_read / poll_flush are part of the case; half of the cases run wake-driven (a task is polled only after its waker fired: a stall with an incomplete stream is a lost wake-up). "
                 "'compose' sub-workload: every chunk composition of small streams. 'sched' sub-workload: for tiny configurations (1-2 messages, capacity 1-3) EVERY schedule prefix of 10 polls x 8 Pending patterns. Additional oracle: polls bounded, a Ready poll_flush follows the last accepted byte of every completed send. "
                 "Distinct = distinct (shape, chunk scripts, capacity, schedule, Pending script)."),
        "gates": ["mode:async", "compose-cases", "sched-cases", "injected-pendings", "flush-checked-sends", "messages-received"],
        "jobs": [
            {"sub": "random", "cfgs": ["debug", "release"], "cases": 25_000 if q else 600_000, "ms": 30_000 if q else 300_000},
            {"sub": "compose", "cfgs": ["debug"], "cases": 30_000 if q else 600_000, "ms": 30_000 if q else 300_000},
            {"sub": "sched", "cfgs": ["debug"], "cases": 40_000 if q else 800_000, "ms": 30_000 if q else 300_000},
            {"sub": "random", "cfgs": ["miri"], "cases": 100 if q else 4_000, "ms": 40_000 if q else 600_000, "wall": 600 if q else 1800},
        ],
    }


def c09(q):
    return {
        "level": "fault_enumeration",
        "rule": ("'enum' sub-workload: for a message sequence (<= 4 messages, <= 47 stream bytes) EVERY stream byte position 0..=len (message boundaries included) x 8 fault kinds (Interrupted, WouldBlock, BrokenPipe, "
                 "ConnectionReset, TimedOut, Other, UnexpectedEof, Ok(0)) x {one-shot, persistent} x {write side, read side} x {blocking, async} is injected. 'random': longer sequences, random chunk/Pending scripts. "
                 "Oracle: call-count breaker never trips, a persistently failing sink makes the pending send return within 2 write calls, sink == whole messages of the Ok sends + at most one partial message at the very end, "
                 "a send reported Ok is entirely in the sink, after a read fault the handed-out messages are a prefix of the sent ones and (transient error + retry) all of them. Using a poisoned sender is a documented refusal. "
                 "Distinct = distinct (shape, messages, fault position/kind/persistence/side, scripts); non-trivial = the fault was actually injected (fault-not-reached counted separately)."),
        "exhaustive_note": "fault points are enumerated completely per message sequence in the 'enum' sub-workload",
        "gates": ["enum-cases", "fault:write-persistent", "fault:write-transient", "fault:read-transient", "fault:read-persistent", "fault:read-eof", "poisoned-refusal", "read-fault-recovered-or-reported"],
        "jobs": [
            {"sub": "enum", "cfgs": ["debug", "release"], "cases": 40_000 if q else 600_000, "ms": 30_000 if q else 300_000},
            {"sub": "random", "cfgs": ["debug"], "cases": 25_000 if q else 600_000, "ms": 30_000 if q else 300_000},
            {"sub": "enum", "cfgs": ["miri"], "cases": 150 if q else 4_000, "ms": 40_000 if q else 600_000, "wall": 600 if q else 1800},
        ],
    }


def c10(q):
    return {
        "level": "exploration",
        "rule": ("cases = (message type, hostile byte stream = concatenation of valid messages, header-mutated / truncated / random inputs of the C01 generator and random bytes, max_msg_len, read chunk script, blocking or async "
                 "with Pending script, monitored or public constructor). Oracle: every recv ends as message / Parse / Read / Closed (no panic, breaker, CPU overrun); each outcome must agree with the three-valued reference decoder "
                 "applied to the stream at the current offset (content error -> Parse, short with a full buffer -> Read(OutOfMemory), short at EOF -> Closed); a handed-out message equals the reference decoding, is valid, aligned, "
                 "consumes exactly its reference extent; skips never exceed what was received. Distinct = distinct (shape, stream bytes, scripts)."),
        "gates": ["c10:expect:msg", "c10:expect:parse", "c10:expect:read-oom", "c10:expect:closed", "mode:async", "mode:blocking"],
        "jobs": [
            {"sub": "random", "cfgs": ["debug", "release"], "cases": 40_000 if q else 1_000_000, "ms": 30_000 if q else 300_000},
            {"sub": "random", "cfgs": ["miri"], "cases": 150 if q else 5_000, "ms": 40_000 if q else 600_000, "wall": 600 if q else 1800},
        ] + ([] if q else [
            {"sub": "random", "cfgs": ["asan"], "cases": 300_000, "ms": 200_000},
        ]),
    }


def c16(q):
    return {
        "level": "exploration",
        "rule": ("'exhaustive16': every value of the four 16-bit portable integers (4 x 65536) x 24 partners (boundary set + random): stored bytes vs to_le_bytes/to_be_bytes, as_bytes, lossless round trip, ALIGN/SIZE, "
                 "zero/one/min/max/is_zero, to_u64/to_i64/to_usize/to_f64, from_u64/from_i64/from_usize, NumCast from u64/i64/f64/self, Ord/PartialOrd, == vs byte equality, + - * / % and their assign forms, Neg/abs/abs_sub/signum/"
                 "is_positive/is_negative, each compared with the native type in the same build profile INCLUDING whether the operation panics. 'random': the 12 integer and 4 float types with boundary values (powers of two +-1, "
                 "byte-distinct and palindromic patterns, NaN payloads, infinities, +-0) and random values/pairs; Bool: all 256 bytes through validate, all operator combinations. NaN results of arithmetic are compared as NaN "
                 "(Rust does not specify the payload of a computed NaN); conversions are compared bit-exact. evaluations = value and pair comparisons; distinct = distinct blocks of values."),
        "exhaustive": True,
        "exhaustive_note": "unary checks are exhaustive for the 16-bit types and for Bool; wider types and binary operations are sampled",
        "gates": ["exhaustive16-blocks", "type:Bool", "type:le::F32", "type:be::I64"],
        "jobs": [
            {"sub": "exhaustive16", "cfgs": ["debug", "release"], "cases": 1024, "ms": 0, "hang_ms": 120_000},
            {"sub": "random", "cfgs": ["debug", "release"], "cases": 400 if q else 20_000, "ms": 25_000 if q else 300_000, "hang_ms": 120_000},
            {"sub": "random", "cfgs": ["miri"], "cases": 2 if q else 20, "ms": 40_000 if q else 300_000, "shards": 17, "lite": True, "wall": 600 if q else 1200},
        ],
    }


PLANS = {"C01": c01, "C02": c02, "C03": c03, "C04": c04, "C05": c05, "C06": c06, "C07": c07, "C08": c08, "C09": c09, "C10": c10, "C11": c11, "C12": c12, "C13": c13, "C14": c14, "C18": c18, "C19": c19, "C15": c15, "C16": c16, "C17": c17, "C20": c20}
