//! IO workloads, generic over the message type (filled in by the IO engines).
use crate::shape::Shape;

pub struct IoVT {}

pub fn io_vt<T: Shape + ?Sized>() -> IoVT {
    IoVT {}
}
