//! IO workloads, generic over the message type: scripted blocking pipes,
//! a bounded in-memory async duplex with a manual executor, monitored buffer
//! wrappers.  The engines in `engines/io.rs` build the cases and judge the
//! traces; this file only runs the real flatty-io code and records what
//! happened at its public boundaries.

use crate::model::Value;
use crate::shape::{assign_op, Kont, Op, OpOut, Shape};
use flatty::{Emplacer, Error};
use flatty_io::{AsyncReadBuffer, AsyncReceiver, AsyncSender, IoBuffer, ReadBuffer, Receiver, RecvError, Sender};
use futures::io::{AsyncRead, AsyncWrite};
use std::cell::RefCell;
use std::future::Future;
use std::io;
use std::ops::Deref;
use std::pin::Pin;
use std::rc::Rc;
use std::sync::atomic::{AtomicBool, Ordering};
use std::sync::Arc;
use std::task::{Context, Poll, Wake, Waker};

pub const BREAKER_MARK: &str = "harness-breaker: pipe call bound exceeded";

#[derive(Clone, Copy, Debug, PartialEq, Eq)]
pub enum FaultKind {
    Err(io::ErrorKind),
    /// write returning Ok(0) / read returning Ok(0) (end of stream)
    Zero,
}

#[derive(Clone, Debug)]
pub struct Fault {
    /// byte position of the stream at which the fault is injected
    pub at: usize,
    pub kind: FaultKind,
    /// how many consecutive calls fail (usize::MAX = persistent)
    pub times: usize,
    /// a further fault that becomes active once this one is used up (its position is not before this one's)
    pub then: Option<Box<Fault>>,
}

#[derive(Clone, Debug, Default)]
pub struct PipeLog {
    pub calls: usize,
    pub write_calls: usize,
    pub read_calls: usize,
    pub flush_calls: usize,
    pub faults_injected: usize,
    pub calls_after_first_fault: usize,
    pub write_calls_after_first_fault: usize,
    pub breaker: bool,
    /// (offered length, accepted / delivered length or -1 for error / -2 pending)
    pub events: Vec<(char, usize, isize)>,
}

pub struct PipeState {
    pub data: Vec<u8>,
    pub rpos: usize,
    pub chunks: Vec<usize>,
    pub chunk_i: usize,
    pub fault: Option<Fault>,
    pub fault_left: usize,
    pub max_calls: usize,
    pub log: PipeLog,
    // async only
    pub capacity: usize,
    pub closed: bool,
    pub pend: Vec<u8>,
    pub pend_i: usize,
    pub read_waker: Option<Waker>,
    pub write_waker: Option<Waker>,
    pub flush_pending_left: usize,
}

impl PipeState {
    pub fn new(data: Vec<u8>, chunks: Vec<usize>, fault: Option<Fault>, max_calls: usize) -> PipeState {
        let fl = fault.as_ref().map_or(0, |f| f.times);
        PipeState {
            data,
            rpos: 0,
            chunks,
            chunk_i: 0,
            fault,
            fault_left: fl,
            max_calls,
            log: PipeLog::default(),
            capacity: usize::MAX,
            closed: false,
            pend: Vec::new(),
            pend_i: 0,
            read_waker: None,
            write_waker: None,
            flush_pending_left: 0,
        }
    }
    fn next_chunk(&mut self, offered: usize) -> usize {
        let c = if self.chunks.is_empty() {
            offered
        } else {
            let c = self.chunks[self.chunk_i % self.chunks.len()];
            self.chunk_i += 1;
            c
        };
        c.max(1).min(offered)
    }
    fn tick(&mut self) {
        self.log.calls += 1;
        if self.log.faults_injected > 0 {
            self.log.calls_after_first_fault += 1;
        }
        if self.log.calls > self.max_calls {
            self.log.breaker = true;
            panic!("{}", BREAKER_MARK);
        }
    }
    /// fault to inject at stream position `pos`, if any
    fn fault_at(&mut self, pos: usize) -> Option<FaultKind> {
        let f = self.fault.as_ref()?;
        if pos == f.at && self.fault_left > 0 {
            let kind = f.kind;
            if self.fault_left != usize::MAX {
                self.fault_left -= 1;
            }
            self.log.faults_injected += 1;
            if self.fault_left == 0 {
                if let Some(n) = self.fault.as_mut().and_then(|f| f.then.take()) {
                    self.fault_left = n.times;
                    self.fault = Some(*n);
                }
            }
            return Some(kind);
        }
        None
    }
    fn next_pend(&mut self) -> bool {
        if self.pend_i < self.pend.len() {
            let b = self.pend[self.pend_i];
            self.pend_i += 1;
            b != 0
        } else {
            false
        }
    }
}

pub type Shared = Rc<RefCell<PipeState>>;

// ---------------------------------------------------------------------------
// blocking pipes

pub struct ScriptedWriter(pub Shared);
pub struct ScriptedReader(pub Shared);

impl io::Write for ScriptedWriter {
    fn write(&mut self, buf: &[u8]) -> io::Result<usize> {
        let mut s = self.0.borrow_mut();
        s.tick();
        s.log.write_calls += 1;
        if s.log.faults_injected > 0 {
            s.log.write_calls_after_first_fault += 1;
        }
        let pos = s.data.len();
        if let Some(k) = s.fault_at(pos) {
            s.log.events.push(('w', buf.len(), -1));
            return match k {
                FaultKind::Err(e) => Err(e.into()),
                FaultKind::Zero => Ok(0),
            };
        }
        if buf.is_empty() {
            s.log.events.push(('w', 0, 0));
            return Ok(0);
        }
        let mut k = s.next_chunk(buf.len());
        // never run over the fault position: the fault must hit exactly at its byte
        if let Some(f) = &s.fault {
            if s.fault_left > 0 && f.at > pos {
                k = k.min(f.at - pos);
            }
        }
        s.data.extend_from_slice(&buf[..k]);
        s.log.events.push(('w', buf.len(), k as isize));
        Ok(k)
    }
    fn flush(&mut self) -> io::Result<()> {
        let mut s = self.0.borrow_mut();
        s.log.flush_calls += 1;
        Ok(())
    }
}

impl io::Read for ScriptedReader {
    fn read(&mut self, buf: &mut [u8]) -> io::Result<usize> {
        let mut s = self.0.borrow_mut();
        s.tick();
        s.log.read_calls += 1;
        let pos = s.rpos;
        if let Some(k) = s.fault_at(pos) {
            s.log.events.push(('r', buf.len(), -1));
            return match k {
                FaultKind::Err(e) => Err(e.into()),
                FaultKind::Zero => Ok(0),
            };
        }
        let left = s.data.len() - pos;
        if left == 0 || buf.is_empty() {
            s.log.events.push(('r', buf.len(), 0));
            return Ok(0);
        }
        let mut k = s.next_chunk(buf.len().min(left));
        if let Some(f) = &s.fault {
            if s.fault_left > 0 && f.at > pos {
                k = k.min(f.at - pos);
            }
        }
        buf[..k].copy_from_slice(&s.data[pos..pos + k]);
        s.rpos += k;
        s.log.events.push(('r', buf.len(), k as isize));
        Ok(k)
    }
}

// ---------------------------------------------------------------------------
// monitored read buffer (observes the window at the ReadBuffer trait boundary)

#[derive(Clone, Debug, Default)]
pub struct MonLog {
    /// (skip count, occupied length before the skip)
    pub skips: Vec<(usize, usize)>,
    pub reads: Vec<isize>,
    pub received: usize,
    pub skipped: usize,
    pub misaligned_windows: usize,
}

pub struct Mon<B> {
    pub inner: B,
    pub log: Rc<RefCell<MonLog>>,
    pub align: usize,
}
impl<B: Deref<Target = [u8]>> Deref for Mon<B> {
    type Target = [u8];
    fn deref(&self) -> &[u8] {
        &self.inner
    }
}
impl<B: ReadBuffer> ReadBuffer for Mon<B> {
    type Error = B::Error;
    fn read(&mut self) -> Result<usize, Self::Error> {
        let r = self.inner.read();
        let mut l = self.log.borrow_mut();
        match &r {
            Ok(n) => {
                l.reads.push(*n as isize);
                l.received += *n;
            }
            Err(_) => l.reads.push(-1),
        }
        if !self.inner.is_empty() && (self.inner.as_ptr() as usize) % self.align != 0 {
            l.misaligned_windows += 1;
        }
        r
    }
    fn skip(&mut self, count: usize) {
        {
            let mut l = self.log.borrow_mut();
            l.skips.push((count, self.inner.len()));
            l.skipped += count;
        }
        self.inner.skip(count)
    }
}
impl<B: AsyncReadBuffer> AsyncReadBuffer for Mon<B> {
    type Error = B::Error;
    fn poll_read(mut self: Pin<&mut Self>, cx: &mut Context<'_>) -> Poll<Result<usize, Self::Error>> {
        let r = Pin::new(&mut self.inner).poll_read(cx);
        let mut l = self.log.borrow_mut();
        match &r {
            Poll::Ready(Ok(n)) => {
                l.reads.push(*n as isize);
                l.received += *n;
            }
            Poll::Ready(Err(_)) => l.reads.push(-1),
            Poll::Pending => l.reads.push(-2),
        }
        if !self.inner.is_empty() && (self.inner.as_ptr() as usize) % self.align != 0 {
            l.misaligned_windows += 1;
        }
        r
    }
    fn skip(&mut self, count: usize) {
        {
            let mut l = self.log.borrow_mut();
            l.skips.push((count, self.inner.len()));
            l.skipped += count;
        }
        self.inner.skip(count)
    }
}

// ---------------------------------------------------------------------------
// traces

#[derive(Clone, Debug, PartialEq)]
pub enum RecvEvent {
    /// a message was handed out: content, size(), length of the occupied window, address % ALIGN, own bytes validate
    Msg { value: Value, size: usize, window: usize, misaligned: bool, valid: bool },
    Parse(String),
    Read(String),
    Closed,
    /// dropping the guard (or anything inside recv) panicked
    Panic(String),
}

#[derive(Clone, Debug, Default)]
pub struct IoTrace {
    /// per message: Ok / Err(text) ("emplace: .." when the message could not be constructed)
    pub sends: Vec<Result<(), String>>,
    pub send_panic: Option<String>,
    pub recvs: Vec<RecvEvent>,
    pub sink: Vec<u8>,
    pub wlog: PipeLog,
    pub rlog: PipeLog,
    pub mon: MonLog,
    pub polls: usize,
    pub deadlock: bool,
    pub poll_bound_hit: bool,
    /// async: (message index, a Ready flush was seen after its last accepted byte)
    pub flushed_before_done: Vec<bool>,
}

#[derive(Clone, Debug)]
pub struct IoCase {
    pub msgs: Vec<(Value, u64)>,
    /// per message: a value that is emplaced first; the message is then replaced by `msgs[i]` *through the send guard*
    /// (`DerefMut`) before it is sent.  What has to arrive is the content at the time of `send()`.
    pub pre: Vec<Option<(Value, u64)>>,
    /// per message: 1 = before the message, a guard is allocated, initialised with `pre[i]` and dropped without being sent
    /// (nothing of it may reach the sink); 2 = the message is written as raw bytes (`raw[i]`, a reference image with
    /// arbitrary padding bytes) through `as_mut_bytes()` + `assume_init()`
    pub how: Vec<u8>,
    pub raw: Vec<Vec<u8>>,
    pub max_msg_len: usize,
    pub wchunks: Vec<usize>,
    pub rchunks: Vec<usize>,
    pub wfault: Option<Fault>,
    pub rfault: Option<Fault>,
    pub monitored: bool,
    /// capacity of the monitored IoBuffer (None: the documented 2 * max(max_msg_len, MIN_SIZE))
    pub buf_cap: Option<usize>,
    /// capacity of the sender's buffer when it is built by hand instead of by `io()` (any capacity that can hold the largest message)
    pub snd_cap: Option<usize>,
    /// bytes fed to the receiver instead of what the sender produced (C10)
    pub stream: Option<Vec<u8>>,
    /// how many times a failed recv is retried (C09)
    pub recv_retries: usize,
    /// how many more times recv is called after a terminal outcome (Closed, Parse, an unretried Read error): every
    /// call has to return again (C10)
    pub recv_after_terminal: usize,
    /// keep sending after a failed send (C09)
    pub send_after_error: bool,
    pub max_calls: usize,
    // async
    pub capacity: usize,
    pub schedule: Vec<u8>,
    pub pend_w: Vec<u8>,
    pub pend_r: Vec<u8>,
    pub wake_driven: bool,
    pub max_polls: usize,
    pub flush_pending: usize,
    pub max_recvs: usize,
}

struct BGuardK<'a, M: Shape + ?Sized, B: flatty_io::WriteBuffer>(flatty_io::blocking::UninitSendGuard<'a, M, B>);
impl<'a, M: Shape + ?Sized, B: flatty_io::WriteBuffer> Kont<M> for BGuardK<'a, M, B> {
    type Out = Result<flatty_io::blocking::SendGuard<'a, M, B>, Error>;
    fn call<E: Emplacer<M>>(self, e: E) -> Self::Out {
        self.0.new_in_place(e)
    }
}
struct AGuardK<'a, M: Shape + ?Sized, B: flatty_io::AsyncWriteBuffer>(flatty_io::async_::UninitSendGuard<'a, M, B>);
impl<'a, M: Shape + ?Sized, B: flatty_io::AsyncWriteBuffer> Kont<M> for AGuardK<'a, M, B> {
    type Out = Result<flatty_io::async_::SendGuard<'a, M, B>, Error>;
    fn call<E: Emplacer<M>>(self, e: E) -> Self::Out {
        self.0.new_in_place(e)
    }
}

/// The guard's message, first initialised with another value, is replaced by `v` through `DerefMut`.
fn edit_through<M: Shape + ?Sized>(m: &mut M, v: &Value, style: u64) -> Result<(), String> {
    match assign_op(m, &Op::Assign(v.clone(), style)) {
        OpOut::Done => Ok(()),
        o => Err(format!("emplace: assign through the guard: {:?}", o)),
    }
}

fn is_breaker(p: &str) -> bool {
    p.contains("harness-breaker")
}

fn observe<M: Shape + ?Sized>(m: &M, window: usize) -> RecvEvent {
    let addr = m as *const M as *const u8 as usize;
    let size = flatty::traits::FlatBase::size(m);
    let valid = M::validate(m.as_bytes()).is_ok();
    RecvEvent::Msg { value: m.read(), size, window, misaligned: addr % M::ALIGN != 0, valid }
}

// ---------------------------------------------------------------------------
// blocking run: sender first (into the sink), then receiver (from the sink or from `stream`)

pub fn run_blocking<M: Shape + ?Sized>(c: &IoCase) -> IoTrace {
    let mut t = IoTrace::default();
    // ---- sender
    let wstate: Shared = Rc::new(RefCell::new(PipeState::new(Vec::new(), c.wchunks.clone(), c.wfault.clone(), c.max_calls)));
    if c.stream.is_none() {
        let ws = wstate.clone();
        let sends_cell: RefCell<Vec<Result<(), String>>> = RefCell::new(Vec::new());
        let r = crate::engine::guarded(|| {
            let sends = &sends_cell;
            let mut sender = match c.snd_cap {
                Some(cap) => Sender::<M, _>::new(IoBuffer::new(ScriptedWriter(ws), cap, M::ALIGN)),
                None => Sender::<M, _>::io(ScriptedWriter(ws), c.max_msg_len),
            };
            for (i, (v, style)) in c.msgs.iter().enumerate() {
                let guard = match sender.alloc() {
                    Ok(g) => g,
                    Err(e) => {
                        sends.borrow_mut().push(Err(format!("alloc: {:?}", e.kind())));
                        break;
                    }
                };
                let how = c.how.get(i).copied().unwrap_or(0);
                let mut guard = guard;
                if how == 1 {
                    if let Some((pv, ps)) = c.pre.get(i).and_then(|p| p.as_ref()) {
                        // an initialised guard that is never sent
                        drop(M::with_emp(pv, *ps, BGuardK(guard)));
                        guard = match sender.alloc() {
                            Ok(g) => g,
                            Err(e) => {
                                sends.borrow_mut().push(Err(format!("alloc: {:?}", e.kind())));
                                break;
                            }
                        };
                    }
                }
                let res = match c.pre.get(i).and_then(|p| p.as_ref()).filter(|_| how == 0) {
                    None if how == 2 => {
                        let img = &c.raw[i];
                        guard.as_mut_bytes()[..img.len()].copy_from_slice(img);
                        // SAFETY: the bytes are a valid encoding of the message (reference image)
                        unsafe { guard.assume_init() }.send().map_err(|e| format!("io: {:?}", e.kind()))
                    }
                    None => match M::with_emp(v, *style, BGuardK(guard)) {
                        Err(e) => Err(format!("emplace: {:?}", e)),
                        Ok(g) => g.send().map_err(|e| format!("io: {:?}", e.kind())),
                    },
                    Some((pv, ps)) => match M::with_emp(pv, *ps, BGuardK(guard)) {
                        Err(e) => Err(format!("emplace: {:?}", e)),
                        Ok(mut g) => match edit_through::<M>(&mut *g, v, *style) {
                            Ok(()) => g.send().map_err(|e| format!("io: {:?}", e.kind())),
                            Err(e) => Err(e),
                        },
                    },
                };
                let failed = res.is_err();
                sends.borrow_mut().push(res);
                if failed && !c.send_after_error {
                    break;
                }
            }
        });
        t.sends = sends_cell.borrow().clone();
        if let Err(p) = r {
            t.send_panic = Some(p);
        }
    }
    {
        let s = wstate.borrow();
        t.sink = s.data.clone();
        t.wlog = s.log.clone();
    }
    // ---- receiver
    let source = c.stream.clone().unwrap_or_else(|| t.sink.clone());
    let rstate: Shared = Rc::new(RefCell::new(PipeState::new(source, c.rchunks.clone(), c.rfault.clone(), c.max_calls)));
    let monlog = Rc::new(RefCell::new(MonLog::default()));
    let rs = rstate.clone();
    let ml = monlog.clone();
    let mut events: Vec<RecvEvent> = Vec::new();
    let r = crate::engine::guarded(|| {
        macro_rules! recv_loop {
            ($receiver:expr) => {{
                let mut retries = c.recv_retries;
                let mut extra = c.recv_after_terminal;
                let mut n = 0;
                loop {
                    n += 1;
                    if n > c.max_recvs {
                        break;
                    }
                    match $receiver.recv() {
                        Ok(guard) => {
                            let window = guard_window(&*guard);
                            events.push(observe::<M>(&*guard, window));
                            drop(guard);
                        }
                        Err(RecvError::Closed) => {
                            events.push(RecvEvent::Closed);
                            if extra == 0 {
                                break;
                            }
                            extra -= 1;
                        }
                        Err(RecvError::Parse(e)) => {
                            events.push(RecvEvent::Parse(format!("{:?}@{}", e.kind, e.pos)));
                            if extra == 0 {
                                break;
                            }
                            extra -= 1;
                        }
                        Err(RecvError::Read(e)) => {
                            events.push(RecvEvent::Read(format!("{:?}", e.kind())));
                            if retries == 0 {
                                if extra == 0 {
                                    break;
                                }
                                extra -= 1;
                            } else {
                                retries -= 1;
                            }
                        }
                    }
                }
            }};
        }
        if c.monitored {
            let cap = c.buf_cap.unwrap_or(2 * c.max_msg_len.max(M::MIN_SIZE));
            let buf = Mon { inner: IoBuffer::new(ScriptedReader(rs), cap, M::ALIGN), log: ml, align: M::ALIGN };
            let mut receiver = Receiver::<M, _>::new(buf);
            recv_loop!(receiver);
        } else {
            let mut receiver = Receiver::<M, _>::io(ScriptedReader(rs), c.max_msg_len);
            recv_loop!(receiver);
        }
    });
    if let Err(p) = r {
        events.push(RecvEvent::Panic(p));
    }
    t.recvs = events;
    t.rlog = rstate.borrow().log.clone();
    t.mon = monlog.borrow().clone();
    t
}

fn guard_window<M: Shape + ?Sized>(m: &M) -> usize {
    // the guard derefs to the message mapped on the whole occupied window; its as_bytes() length is
    // what the value covers of it
    m.as_bytes().len()
}

// ---------------------------------------------------------------------------
// async duplex

pub struct AsyncW(pub Shared);
pub struct AsyncR(pub Shared);

impl AsyncWrite for AsyncW {
    fn poll_write(self: Pin<&mut Self>, cx: &mut Context<'_>, buf: &[u8]) -> Poll<io::Result<usize>> {
        let mut s = self.0.borrow_mut();
        s.tick();
        s.log.write_calls += 1;
        if s.log.faults_injected > 0 {
            s.log.write_calls_after_first_fault += 1;
        }
        // injected (spurious but honest) Pending: the task is woken immediately
        if s.next_pend() {
            s.log.events.push(('w', buf.len(), -2));
            cx.waker().wake_by_ref();
            return Poll::Pending;
        }
        let written = s.data.len();
        if let Some(k) = s.fault_at(written) {
            s.log.events.push(('w', buf.len(), -1));
            return Poll::Ready(match k {
                FaultKind::Err(e) => Err(e.into()),
                FaultKind::Zero => Ok(0),
            });
        }
        if buf.is_empty() {
            s.log.events.push(('w', 0, 0));
            return Poll::Ready(Ok(0));
        }
        let in_flight = written - s.rpos;
        if in_flight >= s.capacity {
            // genuinely full: wait for the reader
            s.write_waker = Some(cx.waker().clone());
            s.log.events.push(('w', buf.len(), -2));
            return Poll::Pending;
        }
        let room = s.capacity - in_flight;
        let mut k = s.next_chunk(buf.len().min(room));
        if let Some(f) = &s.fault {
            if s.fault_left > 0 && f.at > written {
                k = k.min(f.at - written);
            }
        }
        s.data.extend_from_slice(&buf[..k]);
        s.log.events.push(('w', buf.len(), k as isize));
        if let Some(w) = s.read_waker.take() {
            w.wake();
        }
        Poll::Ready(Ok(k))
    }
    fn poll_flush(self: Pin<&mut Self>, cx: &mut Context<'_>) -> Poll<io::Result<()>> {
        let mut s = self.0.borrow_mut();
        s.tick();
        s.log.flush_calls += 1;
        if s.flush_pending_left > 0 {
            s.flush_pending_left -= 1;
            s.log.events.push(('f', 0, -2));
            cx.waker().wake_by_ref();
            return Poll::Pending;
        }
        s.log.events.push(('f', 0, 0));
        Poll::Ready(Ok(()))
    }
    fn poll_close(self: Pin<&mut Self>, _cx: &mut Context<'_>) -> Poll<io::Result<()>> {
        let mut s = self.0.borrow_mut();
        s.closed = true;
        if let Some(w) = s.read_waker.take() {
            w.wake();
        }
        Poll::Ready(Ok(()))
    }
}

impl Drop for AsyncW {
    fn drop(&mut self) {
        // dropping the write half closes the pipe (like the ring buffers the repo's tests use)
        if let Ok(mut s) = self.0.try_borrow_mut() {
            s.closed = true;
            if let Some(w) = s.read_waker.take() {
                w.wake();
            }
        }
    }
}

pub struct AsyncRState {
    pub shared: Shared,
    /// separate script of injected Pendings and chunk sizes for the read side
    pub pend: Vec<u8>,
    pub pend_i: usize,
    pub chunks: Vec<usize>,
    pub chunk_i: usize,
    pub fault: Option<Fault>,
    pub fault_left: usize,
}

impl AsyncRead for AsyncRState {
    fn poll_read(mut self: Pin<&mut Self>, cx: &mut Context<'_>, buf: &mut [u8]) -> Poll<io::Result<usize>> {
        let this = &mut *self;
        let mut s = this.shared.borrow_mut();
        s.tick();
        s.log.read_calls += 1;
        if this.pend_i < this.pend.len() {
            let b = this.pend[this.pend_i];
            this.pend_i += 1;
            if b != 0 {
                s.log.events.push(('r', buf.len(), -2));
                cx.waker().wake_by_ref();
                return Poll::Pending;
            }
        }
        let pos = s.rpos;
        if let Some(f) = &this.fault {
            if pos == f.at && this.fault_left > 0 {
                let kind = f.kind;
                if this.fault_left != usize::MAX {
                    this.fault_left -= 1;
                }
                if this.fault_left == 0 {
                    if let Some(n) = this.fault.as_mut().and_then(|f| f.then.take()) {
                        this.fault_left = n.times;
                        this.fault = Some(*n);
                    }
                }
                s.log.faults_injected += 1;
                s.log.events.push(('r', buf.len(), -1));
                return Poll::Ready(match kind {
                    FaultKind::Err(e) => Err(e.into()),
                    FaultKind::Zero => Ok(0),
                });
            }
        }
        let left = s.data.len() - pos;
        if left == 0 {
            if s.closed {
                s.log.events.push(('r', buf.len(), 0));
                return Poll::Ready(Ok(0));
            }
            s.read_waker = Some(cx.waker().clone());
            s.log.events.push(('r', buf.len(), -2));
            return Poll::Pending;
        }
        if buf.is_empty() {
            return Poll::Ready(Ok(0));
        }
        let offered = buf.len().min(left);
        let mut k = if this.chunks.is_empty() {
            offered
        } else {
            let c = this.chunks[this.chunk_i % this.chunks.len()];
            this.chunk_i += 1;
            c.max(1).min(offered)
        };
        if let Some(f) = &this.fault {
            if this.fault_left > 0 && f.at > pos {
                k = k.min(f.at - pos);
            }
        }
        buf[..k].copy_from_slice(&s.data[pos..pos + k]);
        s.rpos += k;
        s.log.events.push(('r', buf.len(), k as isize));
        if let Some(w) = s.write_waker.take() {
            w.wake();
        }
        Poll::Ready(Ok(k))
    }
}

struct Flag(AtomicBool);
impl Wake for Flag {
    fn wake(self: Arc<Self>) {
        self.0.store(true, Ordering::SeqCst);
    }
    fn wake_by_ref(self: &Arc<Self>) {
        self.0.store(true, Ordering::SeqCst);
    }
}

pub fn run_async<M: Shape + ?Sized>(c: &IoCase) -> IoTrace {
    let mut t = IoTrace::default();
    let state: Shared = Rc::new(RefCell::new(PipeState::new(Vec::new(), c.wchunks.clone(), c.wfault.clone(), c.max_calls)));
    {
        let mut s = state.borrow_mut();
        s.capacity = c.capacity.max(1);
        s.pend = c.pend_w.clone();
        s.flush_pending_left = c.flush_pending;
        if let Some(st) = &c.stream {
            // C10: the peer's bytes are already in flight and the write side is closed
            s.data = st.clone();
            s.capacity = usize::MAX;
            s.closed = true;
        }
    }
    let sends: Rc<RefCell<Vec<Result<(), String>>>> = Rc::new(RefCell::new(Vec::new()));
    let done_marks: Rc<RefCell<Vec<usize>>> = Rc::new(RefCell::new(Vec::new())); // index into wlog.events at which each send completed
    let events: Rc<RefCell<Vec<RecvEvent>>> = Rc::new(RefCell::new(Vec::new()));
    let monlog = Rc::new(RefCell::new(MonLog::default()));

    let r = crate::engine::guarded(|| {
        let ws = state.clone();
        let sends2 = sends.clone();
        let marks2 = done_marks.clone();
        let msgs = c.msgs.clone();
        let pre = c.pre.clone();
        let hows = c.how.clone();
        let raws = c.raw.clone();
        let max = c.max_msg_len;
        let snd_cap = c.snd_cap;
        let send_after_error = c.send_after_error;
        let skip_sender = c.stream.is_some();
        let sender_task = async move {
            if skip_sender {
                return;
            }
            let log_state = ws.clone();
            let mut sender = match snd_cap {
                Some(cap) => AsyncSender::<M, _>::new(IoBuffer::new(AsyncW(ws), cap, M::ALIGN)),
                None => AsyncSender::<M, _>::io(AsyncW(ws), max),
            };
            for (i, (v, style)) in msgs.iter().enumerate() {
                let guard = match sender.alloc().await {
                    Ok(g) => g,
                    Err(e) => {
                        sends2.borrow_mut().push(Err(format!("alloc: {:?}", e.kind())));
                        break;
                    }
                };
                let how = hows.get(i).copied().unwrap_or(0);
                let mut guard = guard;
                if how == 1 {
                    if let Some((pv, ps)) = pre.get(i).and_then(|p| p.as_ref()) {
                        drop(M::with_emp(pv, *ps, AGuardK(guard)));
                        guard = match sender.alloc().await {
                            Ok(g) => g,
                            Err(e) => {
                                sends2.borrow_mut().push(Err(format!("alloc: {:?}", e.kind())));
                                break;
                            }
                        };
                    }
                }
                let res = match pre.get(i).and_then(|p| p.as_ref()).filter(|_| how == 0) {
                    None if how == 2 => {
                        let img = &raws[i];
                        guard.as_mut_bytes()[..img.len()].copy_from_slice(img);
                        // SAFETY: the bytes are a valid encoding of the message (reference image)
                        unsafe { guard.assume_init() }.send().await.map_err(|e| format!("io: {:?}", e.kind()))
                    }
                    None => match M::with_emp(v, *style, AGuardK(guard)) {
                        Err(e) => Err(format!("emplace: {:?}", e)),
                        Ok(g) => g.send().await.map_err(|e| format!("io: {:?}", e.kind())),
                    },
                    Some((pv, ps)) => match M::with_emp(pv, *ps, AGuardK(guard)) {
                        Err(e) => Err(format!("emplace: {:?}", e)),
                        Ok(mut g) => match edit_through::<M>(&mut *g, v, *style) {
                            Ok(()) => g.send().await.map_err(|e| format!("io: {:?}", e.kind())),
                            Err(e) => Err(e),
                        },
                    },
                };
                marks2.borrow_mut().push(log_state.borrow().log.events.len());
                let failed = res.is_err();
                sends2.borrow_mut().push(res);
                if failed && !send_after_error {
                    break;
                }
            }
            // dropping the sender closes the pipe
        };
        let rs = state.clone();
        let ev2 = events.clone();
        let ml = monlog.clone();
        let rchunks = c.rchunks.clone();
        let pend_r = c.pend_r.clone();
        let rfault = c.rfault.clone();
        let monitored = c.monitored;
        let buf_cap = c.buf_cap;
        let mut retries = c.recv_retries;
        let mut extra = c.recv_after_terminal;
        let max_recvs = c.max_recvs;
        let receiver_task = async move {
            let fl = rfault.as_ref().map_or(0, |f| f.times);
            let pipe = AsyncRState { shared: rs, pend: pend_r, pend_i: 0, chunks: rchunks, chunk_i: 0, fault: rfault, fault_left: fl };
            macro_rules! recv_loop {
                ($receiver:expr) => {{
                    let mut n = 0;
                    loop {
                        n += 1;
                        if n > max_recvs {
                            break;
                        }
                        match $receiver.recv().await {
                            Ok(guard) => {
                                let window = guard_window(&*guard);
                                ev2.borrow_mut().push(observe::<M>(&*guard, window));
                                drop(guard);
                            }
                            Err(RecvError::Closed) => {
                                ev2.borrow_mut().push(RecvEvent::Closed);
                                if extra == 0 {
                                    break;
                                }
                                extra -= 1;
                            }
                            Err(RecvError::Parse(e)) => {
                                ev2.borrow_mut().push(RecvEvent::Parse(format!("{:?}@{}", e.kind, e.pos)));
                                if extra == 0 {
                                    break;
                                }
                                extra -= 1;
                            }
                            Err(RecvError::Read(e)) => {
                                ev2.borrow_mut().push(RecvEvent::Read(format!("{:?}", e.kind())));
                                if retries == 0 {
                                    if extra == 0 {
                                        break;
                                    }
                                    extra -= 1;
                                } else {
                                    retries -= 1;
                                }
                            }
                        }
                    }
                }};
            }
            if monitored {
                let cap = buf_cap.unwrap_or(2 * max.max(M::MIN_SIZE));
                let buf = Mon { inner: IoBuffer::new(pipe, cap, M::ALIGN), log: ml, align: M::ALIGN };
                let mut receiver = AsyncReceiver::<M, _>::new(buf);
                recv_loop!(receiver);
            } else {
                let mut receiver = AsyncReceiver::<M, _>::io(pipe, max);
                recv_loop!(receiver);
            }
        };
        // ---- manual executor
        let mut tasks: Vec<Option<Pin<Box<dyn Future<Output = ()>>>>> = vec![Some(Box::pin(sender_task)), Some(Box::pin(receiver_task))];
        let flags = [Arc::new(Flag(AtomicBool::new(true))), Arc::new(Flag(AtomicBool::new(true)))];
        let wakers = [Waker::from(flags[0].clone()), Waker::from(flags[1].clone())];
        let mut polls = 0usize;
        let mut si = 0usize;
        let mut deadlock = false;
        let mut bound_hit = false;
        while tasks.iter().any(|t| t.is_some()) {
            if polls >= c.max_polls {
                bound_hit = true;
                break;
            }
            // choose a task
            let want = if si < c.schedule.len() {
                let w = (c.schedule[si] % 2) as usize;
                si += 1;
                w
            } else {
                polls % 2
            };
            let pick = if c.wake_driven {
                // only tasks whose waker fired may be polled
                let cands: Vec<usize> = (0..2).filter(|i| tasks[*i].is_some() && flags[*i].0.load(Ordering::SeqCst)).collect();
                if cands.is_empty() {
                    deadlock = true;
                    break;
                }
                if cands.contains(&want) {
                    want
                } else {
                    cands[0]
                }
            } else if tasks[want].is_some() {
                want
            } else {
                1 - want
            };
            flags[pick].0.store(false, Ordering::SeqCst);
            let mut cx = Context::from_waker(&wakers[pick]);
            polls += 1;
            let fut = tasks[pick].as_mut().unwrap();
            if let Poll::Ready(()) = fut.as_mut().poll(&mut cx) {
                tasks[pick] = None;
            }
        }
        (polls, deadlock, bound_hit)
    });
    match r {
        Ok((p, d, b)) => {
            t.polls = p;
            t.deadlock = d;
            t.poll_bound_hit = b;
        }
        Err(p) => {
            if events.borrow().iter().all(|e| !matches!(e, RecvEvent::Panic(_))) {
                events.borrow_mut().push(RecvEvent::Panic(p));
            }
        }
    }
    t.sends = sends.borrow().clone();
    t.recvs = events.borrow().clone();
    {
        let s = state.borrow();
        t.sink = s.data.clone();
        t.wlog = s.log.clone();
        t.rlog = s.log.clone();
    }
    t.mon = monlog.borrow().clone();
    // flush discipline: before each send completed, a Ready flush must follow its last accepted write
    let marks = done_marks.borrow();
    let mut start = 0usize;
    for (i, m) in marks.iter().enumerate() {
        let ok_send = matches!(t.sends.get(i), Some(Ok(())));
        if ok_send {
            let evs = &t.wlog.events[start.min(*m)..*m];
            let last_w = evs.iter().rposition(|e| e.0 == 'w' && e.2 > 0);
            let flushed = match last_w {
                Some(lw) => evs[lw..].iter().any(|e| e.0 == 'f' && e.2 == 0),
                None => evs.iter().any(|e| e.0 == 'f' && e.2 == 0),
            };
            t.flushed_before_done.push(flushed);
        }
        start = *m;
    }
    let _ = is_breaker;
    t
}

// ---------------------------------------------------------------------------
// threaded blocking run (two real threads over a Mutex+Condvar pipe)

pub struct TPipe {
    /// (bytes written so far, read position, writer closed, reader gone); plain memcpy only: padding bytes of messages may be uninitialised
    pub buf: std::sync::Mutex<(Vec<u8>, usize, bool, bool)>,
    pub cv: std::sync::Condvar,
    pub cap: usize,
}
pub struct TWriter(pub Arc<TPipe>, pub Vec<usize>, pub usize);
pub struct TReader(pub Arc<TPipe>, pub Vec<usize>, pub usize);
impl io::Write for TWriter {
    fn write(&mut self, b: &[u8]) -> io::Result<usize> {
        if b.is_empty() {
            return Ok(0);
        }
        let mut g = self.0.buf.lock().unwrap();
        while g.0.len() - g.1 >= self.0.cap && !g.3 {
            g = self.0.cv.wait(g).unwrap();
        }
        if g.3 {
            // the reading end is gone (receiver stopped on an error or panicked): a real pipe reports that, it does not block
            return Err(io::ErrorKind::BrokenPipe.into());
        }
        let lim = if self.1.is_empty() { b.len() } else { self.1[self.2 % self.1.len()].max(1) };
        self.2 += 1;
        let k = b.len().min(self.0.cap - (g.0.len() - g.1)).min(lim);
        g.0.extend_from_slice(&b[..k]);
        self.0.cv.notify_all();
        drop(g);
        std::thread::yield_now();
        Ok(k)
    }
    fn flush(&mut self) -> io::Result<()> {
        Ok(())
    }
}
impl Drop for TWriter {
    fn drop(&mut self) {
        let mut g = match self.0.buf.lock() {
            Ok(g) => g,
            Err(p) => p.into_inner(),
        };
        g.2 = true;
        self.0.cv.notify_all();
    }
}
impl Drop for TReader {
    fn drop(&mut self) {
        let mut g = match self.0.buf.lock() {
            Ok(g) => g,
            Err(p) => p.into_inner(),
        };
        g.3 = true;
        self.0.cv.notify_all();
    }
}
impl io::Read for TReader {
    fn read(&mut self, b: &mut [u8]) -> io::Result<usize> {
        let mut g = self.0.buf.lock().unwrap();
        while g.0.len() == g.1 && !g.2 {
            g = self.0.cv.wait(g).unwrap();
        }
        if g.0.len() == g.1 {
            return Ok(0);
        }
        let lim = if self.1.is_empty() { b.len() } else { self.1[self.2 % self.1.len()].max(1) };
        self.2 += 1;
        let k = b.len().min(g.0.len() - g.1).min(lim);
        let start = g.1;
        b[..k].copy_from_slice(&g.0[start..start + k]);
        g.1 += k;
        self.0.cv.notify_all();
        drop(g);
        std::thread::yield_now();
        Ok(k)
    }
}

pub fn run_threaded<M: Shape + ?Sized>(c: &IoCase) -> IoTrace {
    let pipe = Arc::new(TPipe { buf: std::sync::Mutex::new((Vec::new(), 0, false, false)), cv: std::sync::Condvar::new(), cap: c.capacity.max(1) });
    let (p1, p2) = (pipe.clone(), pipe);
    let msgs = c.msgs.clone();
    let (max, wch, rch) = (c.max_msg_len, c.wchunks.clone(), c.rchunks.clone());
    let max_recvs = c.max_recvs;
    let sender = std::thread::spawn(move || {
        let mut sends = Vec::new();
        let mut sender = Sender::<M, _>::io(TWriter(p1, wch, 0), max);
        for (v, style) in &msgs {
            let guard = sender.alloc().unwrap();
            let res = match M::with_emp(v, *style, BGuardK(guard)) {
                Err(e) => Err(format!("emplace: {:?}", e)),
                Ok(g) => g.send().map_err(|e| format!("io: {:?}", e.kind())),
            };
            sends.push(res);
        }
        sends
    });
    let receiver = std::thread::spawn(move || {
        let mut events = Vec::new();
        let mut receiver = Receiver::<M, _>::io(TReader(p2, rch, 0), max);
        for _ in 0..max_recvs {
            match receiver.recv() {
                Ok(guard) => {
                    let window = guard_window(&*guard);
                    events.push(observe::<M>(&*guard, window));
                }
                Err(RecvError::Closed) => {
                    events.push(RecvEvent::Closed);
                    break;
                }
                Err(RecvError::Parse(e)) => {
                    events.push(RecvEvent::Parse(format!("{:?}@{}", e.kind, e.pos)));
                    break;
                }
                Err(RecvError::Read(e)) => {
                    events.push(RecvEvent::Read(format!("{:?}", e.kind())));
                    break;
                }
            }
        }
        events
    });
    let mut t = IoTrace::default();
    match sender.join() {
        Ok(s) => t.sends = s,
        Err(_) => t.send_panic = Some("sender thread panicked".into()),
    }
    match receiver.join() {
        Ok(e) => t.recvs = e,
        Err(_) => t.recvs.push(RecvEvent::Panic("receiver thread panicked".into())),
    }
    t
}

pub struct IoVT {
    pub blocking: fn(&IoCase) -> IoTrace,
    pub async_: fn(&IoCase) -> IoTrace,
    pub threaded: fn(&IoCase) -> IoTrace,
}

pub fn io_vt<T: Shape + ?Sized>() -> IoVT {
    IoVT { blocking: run_blocking::<T>, async_: run_async::<T>, threaded: run_threaded::<T> }
}
