//! History engines: a value is constructed in a guarded buffer and then driven
//! through a sequence of in-place operations; after every step the state is
//! observed through the public accessors and through the reference parser and
//! judged against the sequential models.
//!
//!   C05  size() is the exact extent in every reachable state
//!   C11  FlatVec / FlatString == capacity-bounded Vec / String
//!   C12  FlexVec == sequence of independently sized items
//!   C13  a refused container operation leaves the container as it was
//!   C14  in-place mutation stays inside the value / the part being changed
//!   C18  a failed assign_in_place leaves a valid (and, when room is the cause, unchanged) value

use crate::arena::{Arena, Place};
use crate::engine::*;
use crate::engines::bytes_in::{check_view, kind_path};
use crate::engines::framing::path_kinds;
use crate::json::J;
use crate::model::*;
use crate::rng::{hash_str, mix, Rng};
use crate::shape::*;

#[derive(Clone, Debug, PartialEq)]
enum Expect {
    Done,
    Ret(Option<Value>),
    Refused,
    /// documented panic (index out of range, resize beyond capacity, ...)
    Panic,
    /// only trailing padding decides: both outcomes are acceptable
    Either,
}

struct Pred {
    expect: Expect,
    /// value of the target node after a successful operation
    new_node: Option<Value>,
    cause: &'static str,
}

fn vec_cap(d: &Desc, avail: usize) -> usize {
    match d {
        Desc::Vec { elem, len } => {
            let ku = floor_to(avail, d.align());
            let es = elem.size();
            if es == 0 {
                len.max_usize()
            } else {
                ((ku - d.vec_data_off()) / es).min(len.max_usize())
            }
        }
        Desc::Str { len } => (floor_to(avail, d.align()) - len.size).min(len.max_usize()),
        _ => 0,
    }
}

/// Does a value of shape `d` fit into `avail` bytes?  Some(true) / Some(false) / None (= only padding decides)
fn fits(d: &Desc, v: &Value, avail: usize, rng: &mut Rng) -> Option<bool> {
    let need = extent_of(d, v);
    if avail >= d.min_size() && floor_to(avail, d.align()) >= need {
        return Some(true);
    }
    let img = encode(d, v, need, &EncOpts::default(), rng).expect("harness: extent must fit");
    let ce = decode(d, &img, true).expect("harness: canonical image must decode").content_end;
    let hdr = match d {
        Desc::Vec { len, .. } | Desc::Str { len } | Desc::Flex { len, .. } => len.size,
        _ => 0,
    };
    if avail < ce.max(hdr) {
        Some(false)
    } else {
        None
    }
}

/// Sequential model: what must `op` do to the node (shape `d`, current value `cur`, `avail` bytes)?
fn predict(d: &Desc, cur: &Value, bytes: &[u8], off: usize, avail: usize, op: &Op, rng: &mut Rng) -> Option<Pred> {
    let done = |v: Value| Some(Pred { expect: Expect::Done, new_node: Some(v), cause: "" });
    let ret = |r: Option<Value>, v: Value| Some(Pred { expect: Expect::Ret(r), new_node: Some(v), cause: "" });
    let refused = |c: &'static str| Some(Pred { expect: Expect::Refused, new_node: None, cause: c });
    let panics = |c: &'static str| Some(Pred { expect: Expect::Panic, new_node: None, cause: c });
    match (d, op) {
        (_, Op::Set(v)) if d.is_sized() => done(v.clone()),
        (_, Op::Assign(v, _)) if !sealable(d, v) => refused("offset-not-representable"),
        (_, Op::Assign(v, _)) => match fits(d, v, avail, rng) {
            Some(true) => done(v.clone()),
            Some(false) => refused("no-room"),
            None => Some(Pred { expect: Expect::Either, new_node: Some(v.clone()), cause: "padding-only" }),
        },
        (Desc::Vec { .. }, _) => {
            let cap = vec_cap(d, avail);
            let mut it: Vec<Value> = cur.fields().to_vec();
            let len = it.len();
            match op {
                Op::VPush(x) => {
                    if len < cap {
                        it.push(x.clone());
                        done(Value::Seq(it))
                    } else {
                        refused("full")
                    }
                }
                Op::VPop => {
                    let r = it.pop();
                    ret(r, Value::Seq(it))
                }
                Op::VPushSlice(xs) => {
                    if xs.len() <= cap - len {
                        it.extend(xs.iter().cloned());
                        done(Value::Seq(it))
                    } else {
                        refused("full")
                    }
                }
                Op::VExtend(xs) => {
                    let k = (cap - len).min(xs.len());
                    it.extend(xs[..k].iter().cloned());
                    done(Value::Seq(it))
                }
                Op::VTruncate(k) => {
                    it.truncate(*k);
                    done(Value::Seq(it))
                }
                Op::VClear => done(Value::Seq(vec![])),
                Op::VRemove(i) => {
                    if *i < len {
                        let r = it.remove(*i);
                        ret(Some(r), Value::Seq(it))
                    } else {
                        panics("index-out-of-range")
                    }
                }
                Op::VSwapRemove(i) => {
                    if *i < len {
                        let r = it.swap_remove(*i);
                        ret(Some(r), Value::Seq(it))
                    } else {
                        panics("index-out-of-range")
                    }
                }
                Op::VResize(k, x) => {
                    if *k <= len {
                        it.truncate(*k);
                        done(Value::Seq(it))
                    } else if *k <= cap {
                        while it.len() < *k {
                            it.push(x.clone());
                        }
                        done(Value::Seq(it))
                    } else {
                        panics("resize-beyond-capacity")
                    }
                }
                Op::VSetIdx(i, x) => {
                    if *i < len {
                        it[*i] = x.clone();
                        done(Value::Seq(it))
                    } else {
                        panics("index-out-of-range")
                    }
                }
                Op::VIterMutSet(xs) => {
                    for (s, x) in it.iter_mut().zip(xs.iter()) {
                        *s = x.clone();
                    }
                    done(Value::Seq(it))
                }
                _ => None,
            }
        }
        (Desc::Str { .. }, _) => {
            let cap = vec_cap(d, avail);
            let mut s = match cur {
                Value::Str(s) => s.clone(),
                _ => return None,
            };
            match op {
                Op::SPushChar(c) => {
                    if c.len_utf8() <= cap - s.len() {
                        s.push(*c);
                        done(Value::Str(s))
                    } else {
                        refused("full")
                    }
                }
                Op::SPushStr(x) => {
                    if x.len() <= cap - s.len() {
                        s.push_str(x);
                        done(Value::Str(s))
                    } else {
                        refused("full")
                    }
                }
                Op::SClear => done(Value::Str(String::new())),
                _ => None,
            }
        }
        (Desc::Flex { item, len }, _) => {
            let mut it: Vec<Value> = cur.fields().to_vec();
            match op {
                Op::FPop => {
                    if it.pop().is_some() {
                        done(Value::Seq(it))
                    } else {
                        refused("empty")
                    }
                }
                Op::FTruncate(k) => {
                    it.truncate(*k);
                    done(Value::Seq(it))
                }
                Op::FClear => done(Value::Seq(vec![])),
                Op::FPush(..) | Op::FPushDefault => {
                    let x = match op {
                        Op::FPush(x, _) => x.clone(),
                        _ => {
                            if !item.has_default() {
                                return None;
                            }
                            default_value(item)
                        }
                    };
                    let (items, end, ku) = flex_layout(d, bytes, off, avail)?;
                    let slot = d.flex_slot();
                    let al = d.align();
                    let p = match end {
                        FlexEnd::Empty => 0,
                        FlexEnd::Terminated(t) => t,
                        FlexEnd::Open(s) => {
                            // seal the previous last item at its current extent
                            let (_, poff, pav) = *items.last().unwrap();
                            let last_v = it.last().unwrap();
                            let _ = last_v;
                            let dec = {
                                let mut pr = Parser { bytes, out: Parsed::default(), collect: false };
                                pr.parse(item, off + poff, pav, &mut Vec::new()).ok()?
                            };
                            let ext = if item.is_sized() { item.size() } else { ceil_to(dec.1, item.align()) };
                            let room = ceil_to(ext, al);
                            if (slot + room) as u128 >= len.max() {
                                return refused("offset-not-representable");
                            }
                            s + slot + room
                        }
                    };
                    if ku < p + slot {
                        return refused("no-room-for-slot");
                    }
                    match fits(item, &x, ku - p - slot, rng) {
                        Some(true) => {
                            it.push(x);
                            done(Value::Seq(it))
                        }
                        Some(false) => refused("no-room-for-item"),
                        None => {
                            it.push(x);
                            Some(Pred { expect: Expect::Either, new_node: Some(Value::Seq(it)), cause: "padding-only" })
                        }
                    }
                }
                _ => None,
            }
        }
        _ => None,
    }
}

const CHARS: &[char] = &['a', 'Z', '0', '~', 'é', 'ж', '€', '日', '𝄞', '🦀'];
const STRS: &[&str] = &["", "a", "ab", "abc", "é", "€", "𝄞", "xyz€", "hello world", "日本語", "0123456789abcdef", "qq"];

/// Choose an operation for the node of shape `d` with current value `cur`.
fn gen_op(prop: &str, d: &Desc, cur: &Value, avail: usize, rng: &mut Rng) -> Option<Op> {
    let assign_bias = prop == "C18";
    let assign_ok = matches!(prop, "C18" | "C14" | "C05");
    if let Desc::Flex { item, len } = d {
        // a replacement whose non-last item sits around the largest sealable size: the initialiser has to refuse the
        // ones whose offset would be the `L::MAX` marker or beyond (one-byte offsets only: the others need huge items)
        if len.size == 1 && matches!(prop, "C18" | "C12" | "C13" | "C14" | "C05") && avail > 260 && rng.chance(1, if assign_bias { 6 } else { 30 }) {
            let (slot, al) = (d.flex_slot(), d.align());
            let target = (len.max_usize() + al * rng.range(0, 2)).saturating_sub(slot + al);
            if let Some(big) = value_with_extent(item, target, rng) {
                let mut items: Vec<Value> = (0..rng.below(2)).map(|_| gen_value(item, rng, 4)).collect();
                items.push(big);
                items.extend((0..rng.range(1, 2)).map(|_| gen_value(item, rng, 4)));
                return Some(Op::Assign(Value::Seq(items), rng.next()));
            }
        }
    }
    if !d.is_sized() && assign_ok && (assign_bias && rng.chance(3, 4) || rng.chance(1, 12)) {
        // replacement values of very different sizes so that failing and succeeding assigns occur
        let budget = *rng.pick(&[0usize, 2, 4, 8, avail / 2, avail, avail + avail / 2 + 4]);
        let mut v = gen_value(d, rng, budget.max(1));
        if avail > 300 && rng.chance(1, 8) {
            // more elements than a one-byte length type can count: refused although the bytes would fit
            if let Some(o) = make_overlong(d, &v, rng) {
                v = o;
            }
        }
        return Some(Op::Assign(v, rng.next()));
    }
    match d {
        Desc::Vec { elem, .. } => {
            let cap = vec_cap(d, avail);
            let len = cur.fields().len();
            let rem = cap - len;
            let mk = |rng: &mut Rng| gen_value(elem, rng, 8);
            let many = |k: usize, rng: &mut Rng| (0..k.min(300)).map(|_| gen_value(elem, rng, 8)).collect::<Vec<_>>();
            let refusal_bias = prop == "C13";
            Some(match rng.below(if refusal_bias { 8 } else { 22 }) {
                0 | 1 | 2 => Op::VPush(mk(rng)),
                3 => {
                    let k = *rng.pick(&[rem.saturating_sub(1), rem, rem + 1, rem + 2, 1, 2]);
                    Op::VPushSlice(many(k, rng))
                }
                4 => Op::VPushSlice(many(rem + 1, rng)),
                5 => Op::VExtend(many(*rng.pick(&[0, 1, rem, rem + 3]), rng)),
                6 => Op::VPushSlice(many(rng.range(0, rem.min(6)), rng)),
                7 => Op::VPop,
                8 | 9 => Op::VPop,
                10 => Op::VTruncate(*rng.pick(&[0, len.saturating_sub(1), len, len + 1, len / 2])),
                11 => Op::VClear,
                12 => Op::VRemove(*rng.pick(&[0, len.saturating_sub(1), len, len / 2])),
                13 => Op::VSwapRemove(*rng.pick(&[0, len.saturating_sub(1), len, len / 2])),
                14 => Op::VResize(*rng.pick(&[0, len, len + 1, cap, cap + 1, cap.saturating_sub(1)]).min(&400), mk(rng)),
                15 => Op::VSetIdx(*rng.pick(&[0, len.saturating_sub(1), len, len / 2]), mk(rng)),
                16 => Op::VIterMutSet(many(rng.range(0, len + 1), rng)),
                17 => Op::VExtend(many(rem + 2, rng)),
                18 => Op::VPushSlice(many(rem, rng)),
                _ => Op::VPush(mk(rng)),
            })
        }
        Desc::Str { .. } => {
            let cap = vec_cap(d, avail);
            let len = match cur {
                Value::Str(s) => s.len(),
                _ => 0,
            };
            let rem = cap - len;
            Some(match rng.below(10) {
                0..=3 => Op::SPushChar(*rng.pick(CHARS)),
                4..=6 => Op::SPushStr(rng.pick(STRS).to_string()),
                7 => {
                    // a string of exactly rem-1 / rem / rem+1 bytes
                    let k = *rng.pick(&[rem.saturating_sub(1), rem, rem + 1]);
                    Op::SPushStr("x".repeat(k.min(400)))
                }
                8 => Op::SPushStr(format!("{}€", "y".repeat(rem.saturating_sub(2).min(400)))),
                _ => Op::SClear,
            })
        }
        Desc::Flex { item, len: lend } => {
            let len = cur.fields().len();
            if prop == "C17" {
                // mostly pushes (the image of a value built by pushes only is compared with the serialiser); now and then
                // an item is removed again
                if len > 0 && rng.chance(1, 6) {
                    return Some(if rng.chance(1, 2) { Op::FPop } else { Op::FTruncate(rng.range(0, len)) });
                }
                let bb = *rng.pick(&[1usize, 3, 7, 12]);
                return Some(Op::FPush(gen_value(item, rng, bb), rng.next()));
            }
            // items whose sealed offset lands exactly on / next to the largest representable offset
            if lend.size == 1 && rng.chance(1, 4) {
                let slot = d.flex_slot();
                let al = d.align();
                let target = (lend.max_usize() + al * rng.range(0, 2)).saturating_sub(slot + al);
                if let Some(v) = value_with_extent(item, target, rng) {
                    return Some(Op::FPush(v, rng.next()));
                }
            }
            let budget = *rng.pick(&[0usize, 1, 4, 12, avail / 3, avail]);
            Some(match rng.below(if prop == "C13" { 9 } else { 12 }) {
                0..=4 => Op::FPush(gen_value(item, rng, budget.max(1)), rng.next()),
                5 | 6 => {
                    if item.has_default() && !matches!(**item, Desc::Array(..)) {
                        // (the glue has no default emplacer for bare arrays)
                        Op::FPushDefault
                    } else {
                        Op::FPush(gen_value(item, rng, 2), rng.next())
                    }
                }
                7 | 8 => Op::FPop,
                9 => Op::FTruncate(*rng.pick(&[0, 1, len.saturating_sub(1), len, len + 1])),
                10 => Op::FTruncate(rng.range(0, len + 1)),
                _ => Op::FClear,
            })
        }
        _ if d.is_sized() => Some(Op::Set(gen_value(d, rng, 8))),
        _ => None,
    }
}

struct NodeSel {
    path: Vec<u32>,
    off: usize,
    avail: usize,
}

/// Candidate target nodes of the current state (containers, unsized composites, sized fields).
fn candidates(prop: &str, d: &Desc, v: &Value, dec: &Decoded, rng: &mut Rng) -> Option<NodeSel> {
    let mut c: Vec<&Node> = Vec::new();
    for n in &dec.parsed.nodes {
        let (nd, _) = match node_at(d, v, &n.path) {
            Some(x) => x,
            None => continue,
        };
        let w = match nd {
            Desc::Vec { .. } | Desc::Str { .. } => !matches!(prop, "C12" | "C17"),
            Desc::Flex { .. } => !matches!(prop, "C11"),
            _ if prop == "C17" => false,
            Desc::Struct { sized: false, .. } | Desc::Enum { sized: false, .. } => matches!(prop, "C18" | "C14" | "C05"),
            _ => matches!(prop, "C14") && n.path.len() <= 3 && !n.path.is_empty(),
        };
        // C12: edits inside items are interesting, so nested Vec/Str below a Flex are included
        let w = w || (matches!(prop, "C12" | "C17") && matches!(nd, Desc::Vec { .. } | Desc::Str { .. }) && !n.path.is_empty());
        if w {
            c.push(n);
        }
    }
    if c.is_empty() {
        return None;
    }
    let n = *rng.pick(&c);
    Some(NodeSel { path: n.path.clone(), off: n.off, avail: n.avail })
}

fn relevant(prop: &str, d: &Desc) -> bool {
    fn has(d: &Desc, f: &dyn Fn(&Desc) -> bool) -> bool {
        if f(d) {
            return true;
        }
        match d {
            Desc::Array(e, _) | Desc::Vec { elem: e, .. } | Desc::Flex { item: e, .. } => has(e, f),
            Desc::Struct { fields, .. } => fields.iter().any(|x| has(x, f)),
            Desc::Enum { variants, .. } => variants.iter().flatten().any(|x| has(x, f)),
            _ => false,
        }
    }
    // vectors of zero-sized items are represented by a count in the model; their histories are not modelled
    if has(d, &|x| matches!(x, Desc::Vec { elem, .. } if elem.size() == 0)) {
        return false;
    }
    match prop {
        "C11" => has(d, &|x| matches!(x, Desc::Vec { .. } | Desc::Str { .. })),
        "C12" => has(d, &|x| matches!(x, Desc::Flex { .. })),
        "C13" => has(d, &|x| matches!(x, Desc::Vec { .. } | Desc::Str { .. } | Desc::Flex { .. })),
        "C17" => d.is_portable() && d.align() == 1 && !d.is_sized() && has(d, &|x| matches!(x, Desc::Flex { .. })),
        _ => !d.is_sized(),
    }
}

fn has_small_flex(d: &Desc) -> bool {
    match d {
        Desc::Flex { len, item } => len.size == 1 || has_small_flex(item),
        Desc::Struct { fields, .. } => fields.last().map_or(false, has_small_flex),
        Desc::Enum { variants, .. } => variants.iter().any(|v| v.last().map_or(false, has_small_flex)),
        _ => false,
    }
}

fn recs_differ(a: &[u8], b: &[u8], recs: &[Rec], skip_prefix: Option<&[u32]>) -> Option<(usize, usize, Vec<u32>)> {
    for r in recs {
        if let Some(p) = skip_prefix {
            if r.path.starts_with(p) {
                continue;
            }
        }
        if r.off + r.len > a.len() || r.off + r.len > b.len() || a[r.off..r.off + r.len] != b[r.off..r.off + r.len] {
            return Some((r.off, r.len, r.path.clone()));
        }
    }
    None
}

pub fn run(ctx: &Ctx, rep: &mut Report) {
    let prop = ctx.prop.as_str();
    let shapes: Vec<usize> = (0..ctx.zoo.len()).filter(|&i| relevant(prop, &ctx.zoo[i].desc)).collect();
    if shapes.is_empty() {
        rep.harness_error("no applicable shapes".into());
        return;
    }
    let lean = ctx.lite && ctx.mode.starts_with("miri");
    ctx.for_cases(rep, |idx, rep| {
        let mut rng = Rng::derive(ctx.seed, idx, hash_str(prop));
        let si = shapes[rng.below(shapes.len() as u64) as usize];
        let vt = &ctx.zoo[si];
        let d = &vt.desc;
        let a = d.align();
        // initial value and buffer
        let b0 = *rng.pick(&[2usize, 8, 24, 60]);
        let v0 = if prop == "C17" || rng.chance(1, 3) { crate::inputs::smallest_value(d) } else { gen_value(d, &mut rng, b0) };
        let need = extent_of(d, &v0);
        let slack = match rng.below(8) {
            0 => 0,
            1 => rng.range(0, a),
            2 => rng.range(0, 16),
            3 => rng.range(0, 64),
            4 => rng.range(0, 200),
            5 => {
                // enough room to reach a u8 length type's maximum
                if matches!(d, Desc::Vec { len, .. } | Desc::Str { len } if len.size == 1) {
                    rng.range(250, 300) * match d {
                        Desc::Vec { elem, .. } => elem.size().max(1),
                        _ => 1,
                    }
                } else {
                    rng.range(0, 100)
                }
            }
            6 => {
                // room for an item whose sealed offset reaches the largest value a u8 offset can hold
                if has_small_flex(d) {
                    rng.range(260, 700)
                } else {
                    rng.range(0, 40)
                }
            }
            _ => rng.range(0, 40),
        };
        let n = need + slack;
        let off = a * rng.below((64 / a) as u64) as usize;
        let place = if prop == "C14" || rng.chance(1, 2) { Place::Island } else { Place::Tail };
        let mut arena = if lean { Arena::new_lean(n, off, place) } else { Arena::new(n, off, place, mix(idx)) };
        let addr = arena.addr();
        let steps = if lean { rng.range(2, 8) } else { rng.range(3, if ctx.tier == Tier::Quick { 40 } else { 200 }) };
        let style0 = rng.next();
        let hist: std::cell::RefCell<Vec<String>> = std::cell::RefCell::new(Vec::new());
        let cjb = |hist: &Vec<String>| {
            case_json(ctx, idx)
                .set("shape", J::s(vt.name))
                .set("buffer", J::i(n))
                .set("initial", J::s(v0.short()))
                .set("history", J::Arr(hist.iter().rev().take(12).rev().map(|h| J::s(h.clone())).collect()))
        };
        let mut viol: Vec<(String, String)> = Vec::new(); // (signature, what) collected inside the closure
        let mut steps_done = 0u64;
        let mut counters: Vec<String> = Vec::new();
        let mut keys: Vec<u64> = Vec::new();
        let mut harness_err: Option<String> = None;

        if prop == "C11" && !lean && rng.chance(1, 16) {
            // growth beyond what the length type can count is refused at construction too: an initialiser with more
            // elements than `L::MAX` must not be accepted (and silently cut) however large the buffer is
            let mut r2 = Rng::new(mix(idx) ^ 0x0dd);
            if let Some(vo) = make_overlong(d, &v0, &mut r2) {
                let room = overlong_room(d, &vo);
                let mut ar2 = Arena::new(room, off, Place::Island, mix(idx) ^ 5);
                let mut seen: Option<Value> = None;
                let r = guarded(|| (vt.new_in_place)(arena_slice_mut(&mut ar2), &vo, style0, &mut |root| seen = Some(root.as_dyn().read())));
                match r {
                    Ok(Ok(())) => rep.violation(
                        format!("C11|accepted-more-elements-than-length-type|{}", kind_path(d)),
                        format!("{}: an initialiser with more elements than the length type can count was accepted in {} bytes; the value holds {}", vt.name, room, seen.map(|v| v.short()).unwrap_or_default()),
                        case_json(ctx, idx).set("shape", J::s(vt.name)).set("buffer", J::i(room)),
                    ),
                    Ok(Err(_)) => rep.count("construct-beyond-length-type-refused"),
                    Err(p) if is_harness_panic(&p) => rep.harness_error(p),
                    Err(p) => rep.violation(format!("C11|panic|construct|{}", panic_site(&p)), format!("{}: constructing with more elements than the length type can count panicked: {}", vt.name, p), case_json(ctx, idx).set("shape", J::s(vt.name))),
                }
            }
        }
        let res = guarded(|| {
            (vt.new_in_place)(arena_slice_mut(&mut arena), &v0, style0, &mut |root| {
                let mut model = v0.clone();
                let mut dead = false;
                // C17: true while the value has been built by FlexVec pushes only (no spare room inside sealed items)
                let mut pushes_only = true;
                let mut prev = None;
                for step in 0..steps {
                    if dead {
                        break;
                    }
                    if step > 0 && ctx.case_over() {
                        // interpreter runs only: the history ends here (a shorter history is still a history)
                        counters.push("history-ended-by-case-time-budget".into());
                        break;
                    }
                    // ---- observe the state before the step through the reference parser
                    let bytes_b: Vec<u8> = root.as_dyn().bytes().to_vec();
                    // the state after the previous step was parsed already and nothing ran in between (the bytes are not
                    // compared: padding may be uninitialised, which the interpreters rightly refuse to read)
                    let reuse = prev.take();
                    let dec_b = match reuse.map(Ok).unwrap_or_else(|| decode(d, &bytes_b, true)) {
                        Ok(x) => x,
                        Err(e) => {
                            viol.push((format!("{}|state-not-decodable|{}", prop, kind_path(d)), format!("after {:?}: reference parser rejects the value's bytes: {:?}", hist.borrow().last(), e)));
                            break;
                        }
                    };
                    if dec_b.value != model {
                        harness_err = Some(format!("harness: model/reference divergence before step {}: model {} reference {}", step, model.short(), dec_b.value.short()));
                        break;
                    }
                    let sel = match candidates(prop, d, &model, &dec_b, &mut rng) {
                        Some(s) => s,
                        None => break,
                    };
                    let (nd, nv) = {
                        let (a, b) = node_at(d, &model, &sel.path).expect("harness: node_at");
                        (a.clone(), b.clone())
                    };
                    let (nd, nv) = (&nd, &nv);
                    let op = match gen_op(prop, nd, nv, sel.avail, &mut rng) {
                        Some(o) => o,
                        None => continue,
                    };
                    let pred = match predict(nd, nv, &bytes_b, sel.off, sel.avail, &op, &mut rng) {
                        Some(p) => p,
                        None => continue,
                    };
                    let kinds = path_kinds(d, &model, &sel.path);
                    let opdesc = format!("{}@{:?}[{}] {}", op.name(), sel.path, kinds, short_op(&op));
                    hist.borrow_mut().push(opdesc.clone());
                    let size_b = root.as_dyn().size();

                    // ---- the operation
                    let r = guarded(|| apply_at(root, &sel.path, &op));
                    steps_done += 1;
                    let outcome: &str = match &r {
                        Ok(OpOut::Done) => "done",
                        Ok(OpOut::Ret(_)) => "ret",
                        Ok(OpOut::Refused(_)) => "refused",
                        Ok(OpOut::NotApplicable) => "n/a",
                        Err(_) => "panic",
                    };
                    counters.push(format!("op:{}:{}", op.name(), outcome));
                    if matches!(r, Ok(OpOut::NotApplicable)) {
                        harness_err = Some(format!("harness: op {} not applicable at {:?}", op.name(), sel.path));
                        break;
                    }
                    if let Err(p) = &r {
                        if is_harness_panic(p) {
                            harness_err = Some(p.clone());
                            break;
                        }
                    }
                    // ---- expectation vs outcome
                    let changed_ok; // the op is judged to have taken effect
                    match (&pred.expect, &r) {
                        (Expect::Panic, Err(_)) => {
                            changed_ok = false;
                            counters.push(format!("documented-panic:{}", pred.cause));
                        }
                        (_, Err(p)) => {
                            viol.push((format!("{}|panic|{}|{}", prop, op.name(), panic_site(p)), format!("{} panicked: {}", opdesc, p)));
                            dead = true;
                            changed_ok = false;
                        }
                        (Expect::Panic, Ok(o)) => {
                            viol.push((format!("{}|missing-refusal|{}|{}", prop, op.name(), kinds), format!("{}: documented precondition violated ({}) but the call returned {:?}", opdesc, pred.cause, o)));
                            changed_ok = false;
                            dead = true;
                        }
                        (Expect::Done, Ok(OpOut::Done)) => changed_ok = true,
                        (Expect::Ret(x), Ok(OpOut::Ret(y))) => {
                            changed_ok = true;
                            if x != y && matches!(prop, "C11" | "C12") {
                                viol.push((format!("{}|wrong-return|{}|{}", prop, op.name(), kinds), format!("{}: returned {:?}, model says {:?}", opdesc, y, x)));
                            }
                        }
                        (Expect::Refused, Ok(OpOut::Refused(_))) => {
                            changed_ok = false;
                            counters.push(format!("refused:{}:{}", nd.kind(), pred.cause));
                        }
                        (Expect::Either, Ok(OpOut::Done)) => changed_ok = true,
                        (Expect::Either, Ok(OpOut::Refused(_))) => changed_ok = false,
                        (e, Ok(o)) => {
                            if matches!(prop, "C11" | "C12" | "C13" | "C18") {
                                viol.push((
                                    format!("{}|wrong-outcome|{}|{}|expected-{}", prop, op.name(), kinds, match e {
                                        Expect::Refused => "refusal",
                                        Expect::Done => "success",
                                        _ => "return",
                                    }),
                                    format!("{}: returned {:?}, model expects {:?} ({})", opdesc, o, e, pred.cause),
                                ));
                            }
                            // follow the library's decision so that the remaining oracles stay meaningful
                            changed_ok = matches!(o, OpOut::Done | OpOut::Ret(_));
                            if changed_ok && pred.new_node.is_none() {
                                dead = true;
                            }
                        }
                    }
                    if changed_ok {
                        if let Some(nn) = &pred.new_node {
                            set_at(&mut model, &sel.path, nn.clone());
                        }
                    }
                    let refused_now = !changed_ok;

                    // ---- observe after
                    // validity first: an invalid value must not be walked (its accessors are only sound on valid bytes)
                    if let Ok(Err(e)) = guarded(|| root.as_dyn().revalidate()) {
                        let is_assign = matches!(op, Op::Assign(..));
                        if is_assign && refused_now {
                            // first sentence of C18; the other history properties only stop here
                            if prop == "C18" {
                                let cause = if nested_enum_refuses(nd, &op, sel.avail) { "nested-enum-variant-does-not-fit" } else { no_room_cause(nd, &op, sel.avail) };
                                viol.push((
                                    format!("C18|valid-after-error|own-bytes-do-not-validate|{}|{}|{}", nd.kind(), emp_kind(nd, &op), cause),
                                    format!("after failed {} (target at {}): validate(as_bytes()) = {:?}", opdesc, kinds, e),
                                ));
                            }
                            counters.push("failed-assign-left-invalid-value".into());
                        } else {
                            let clause = if refused_now { "valid-after-refusal" } else { "valid-after-op" };
                            viol.push((format!("{}|{}|own-bytes-do-not-validate|{}|{}", prop, clause, op.name(), kinds), format!("after {} ({}): validate(as_bytes()) = {:?}", opdesc, outcome, e)));
                        }
                        break;
                    }
                    let after = guarded(|| {
                        let vd = root.as_dyn();
                        (vd.bytes().to_vec(), vd.size(), vd.revalidate(), vd.read())
                    });
                    let (bytes_a, size_a, reval, read_a) = match after {
                        Ok(x) => x,
                        Err(p) => {
                            if is_harness_panic(&p) {
                                harness_err = Some(p);
                            } else {
                                let clause = if matches!(op, Op::Assign(..)) && refused_now { "valid-after-error" } else { "state-readable" };
                                viol.push((format!("{}|{}|inspect-panics|{}|{}", prop, clause, op.name(), panic_site(&p)), format!("after {} ({}): inspecting the value panicked: {}", opdesc, outcome, p)));
                            }
                            break;
                        }
                    };
                    let dec_a = decode(d, &bytes_a, true);
                    // validity (all history properties rely on it; reported under the property being checked)
                    let valid_clause = if matches!(op, Op::Assign(..)) && refused_now { "valid-after-error" } else if refused_now { "valid-after-refusal" } else { "valid-after-op" };
                    if let Err(e) = &reval {
                        viol.push((format!("{}|{}|own-bytes-do-not-validate|{}|{}", prop, valid_clause, op.name(), kinds), format!("after {} ({}): validate(as_bytes()) = {:?}", opdesc, outcome, e)));
                        break;
                    }
                    let dec_a = match dec_a {
                        Ok(x) => x,
                        Err(e) => {
                            viol.push((format!("{}|{}|reference-parser-rejects|{}|{}", prop, valid_clause, op.name(), kinds), format!("after {} ({}): reference parser: {:?}", opdesc, outcome, e)));
                            break;
                        }
                    };
                    if dec_a.value != read_a {
                        viol.push((format!("{}|remap-differs|{}|{}", prop, op.name(), kinds), format!("after {}: accessors read {} but the bytes decode to {}", opdesc, read_a.short(), dec_a.value.short())));
                        break;
                    }
                    // content vs model
                    let mut assign_changed: Option<String> = None;
                    if read_a != model {
                        let sig = if refused_now {
                            if matches!(op, Op::Assign(..)) {
                                assign_changed = Some(format!("content changed: value is {} but was {}", read_a.short(), model.short()));
                                String::new()
                            } else {
                                format!("{}|refused-op-changed-state|{}|{}|{}", prop, op.name(), kinds, pred.cause)
                            }
                        } else {
                            format!("{}|content-differs-from-model|{}|{}", prop, op.name(), kinds)
                        };
                        let report = match prop {
                            "C11" | "C12" => !sig.is_empty(),
                            "C13" => refused_now && !matches!(op, Op::Assign(..)),
                            _ => false,
                        };
                        if report {
                            viol.push((sig, format!("after {} ({}): value is {} but the model says {}", opdesc, outcome, read_a.short(), model.short())));
                        }
                        // resynchronise on the library's state
                        model = read_a.clone();
                    }
                    // refused => nothing observable changed (bytes of the non-padding positions, size)
                    if refused_now {
                        let is_assign = matches!(op, Op::Assign(..));
                        let report = (prop == "C13" && !is_assign) || (prop == "C18" && is_assign);
                        if report && !is_assign {
                            if size_a != size_b {
                                viol.push((format!("{}|refused-op-changed-size|{}|{}", prop, op.name(), kinds), format!("after refused {}: size() {} -> {}", opdesc, size_b, size_a)));
                            }
                            if !lean {
                                if let Some((o, l, p)) = recs_differ(&bytes_b, &bytes_a, &dec_b.parsed.recs, None) {
                                    viol.push((format!("{}|refused-op-changed-bytes|{}|{}|{}", prop, op.name(), kinds, pred.cause), format!("after refused {}: bytes [{}..{}) (path {:?}) changed", opdesc, o, o + l, p)));
                                }
                            }
                        }
                        if report && is_assign {
                            // second sentence of C18: too little room => unchanged.  One report per failed assign.
                            if assign_changed.is_none() && size_a != size_b {
                                assign_changed = Some(format!("size() {} -> {}", size_b, size_a));
                            }
                            if assign_changed.is_none() && !lean {
                                if let Some((o, l, p)) = recs_differ(&bytes_b, &bytes_a, &dec_b.parsed.recs, None) {
                                    assign_changed = Some(format!("bytes [{}..{}) (path {:?}) changed", o, o + l, p));
                                }
                            }
                            if let Some(what) = assign_changed.take() {
                                viol.push((
                                    format!("C18|unchanged-on-no-room|{}|{}|{}", nd.kind(), emp_kind(nd, &op), no_room_cause(nd, &op, sel.avail)),
                                    format!("after failed {} (target at {}): {}", opdesc, kinds, what),
                                ));
                            } else {
                                counters.push("failed-assign-left-unchanged".into());
                            }
                        }
                    }
                    // C17: a portable value built by pushes has the padding-free reference image
                    if prop == "C17" && changed_ok && !matches!(op, Op::FPush(..)) {
                        pushes_only = false;
                    }
                    if prop == "C17" && changed_ok && !lean {
                        // "can be mapped at any address": the value's own image, copied to an odd address, maps to the same value
                        let m = size_a.min(bytes_a.len());
                        let mut ar2 = Arena::new(m, 1 + 2 * (steps_done as usize % 4), Place::Tail, 11);
                        ar2.fill_from(&bytes_a[..m]);
                        let mut got = None;
                        match guarded(|| (vt.from_bytes)(ar2.slice(), &mut |v| got = Some((v.read(), v.size())))) {
                            Ok(Ok(())) => {
                                let (gv, gs) = got.unwrap();
                                if gv != read_a || gs != size_a {
                                    viol.push((format!("C17|image-maps-to-another-value-at-another-address|{}", kind_path(d)), format!("after {}: as_bytes()[..size()] ({} bytes) copied to an odd address maps to {} with size {} (was {} / {})", opdesc, m, gv.short(), gs, read_a.short(), size_a)));
                                }
                            }
                            Ok(Err(e)) => viol.push((format!("C17|image-does-not-map-at-another-address|{}", kind_path(d)), format!("after {}: as_bytes()[..size()] ({} bytes) copied to an odd address is rejected: {:?}", opdesc, m, e))),
                            Err(p) => viol.push((format!("C17|panic|remap|{}", panic_site(&p)), format!("after {}: {}", opdesc, p))),
                        }
                        counters.push("c17:remapped-at-odd-address".into());
                    }
                    if prop == "C17" && changed_ok && !lean && pushes_only {
                        let mut ser = Vec::new();
                        serialize_portable(d, &model, &mut ser);
                        let m = size_a.min(bytes_a.len());
                        if m != ser.len() || !bytes_a[..m].iter().zip(ser.iter()).all(|(x, y)| y.map_or(true, |y| y == *x)) {
                            viol.push((
                                format!("C17|pushed-image-differs-from-serialisation|{}", kind_path(d)),
                                format!("after {}: as_bytes()[..size()] = {:02x?} but the reference serialisation of {} has {} bytes: {:?}", opdesc, &bytes_a[..m.min(48)], model.short(), ser.len(), ser.iter().take(48).map(|x| x.map_or("??".to_string(), |b| format!("{:02x}", b))).collect::<Vec<_>>()),
                            ));
                        }
                        counters.push("c17:pushed-compared".into());
                    }
                    // C05: size() is the exact extent
                    if prop == "C05" || prop == "C11" || prop == "C12" {
                        if size_a != dec_a.extent {
                            viol.push((format!("{}|size-differs-from-extent|{}", prop, kind_path(d)), format!("after {}: size() = {} but used data ends at {} (extent {})", opdesc, size_a, dec_a.used_end, dec_a.extent)));
                        }
                    }
                    if prop == "C05" {
                        if size_a > n {
                            viol.push((format!("C05|size-exceeds-buffer|{}", kind_path(d)), format!("after {}: size() = {} > buffer {}", opdesc, size_a, n)));
                        } else if !lean {
                            // re-map the first size() bytes in a fresh guarded buffer
                            let m = size_a.min(bytes_a.len());
                            let mut ar2 = Arena::new(m, off, Place::Tail, 7);
                            ar2.fill_from(&bytes_a[..m]);
                            let mut got = None;
                            let r2 = guarded(|| (vt.from_bytes)(ar2.slice(), &mut |v| got = Some((v.read(), v.size()))));
                            match r2 {
                                Ok(Ok(())) => {
                                    let (gv, gs) = got.unwrap();
                                    if gv != read_a || gs != size_a {
                                        viol.push((format!("C05|truncated-remap-differs|{}", kind_path(d)), format!("after {}: first size()={} bytes map to {} with size {} (was {} / {})", opdesc, size_a, gv.short(), gs, read_a.short(), size_a)));
                                    }
                                }
                                Ok(Err(e)) => viol.push((format!("C05|truncated-remap-fails|{}", kind_path(d)), format!("after {}: first size()={} bytes do not map again: {:?}", opdesc, size_a, e))),
                                Err(p) => viol.push((format!("C05|truncated-remap-panics|{}", panic_site(&p)), format!("after {}: {}", opdesc, p))),
                            }
                        }
                    }
                    // C11: probes and comparisons of the target container
                    if prop == "C11" && !lean {
                        if let Some((nd2, nv2)) = node_at(d, &model, &sel.path) {
                            if matches!(nd2, Desc::Vec { .. } | Desc::Str { .. }) {
                                let cap = vec_cap(nd2, sel.avail);
                                let len = match nv2 {
                                    Value::Str(s) => s.len(),
                                    v => v.fields().len(),
                                };
                                let mut pr = None;
                                visit_at(root.as_dyn(), &sel.path, &mut |nn| pr = nn.probe());
                                let want = Probe { len, cap: Some(cap), remaining: Some(cap - len.min(cap)), is_empty: len == 0, is_full: Some(len == cap), iter_count: None };
                                if pr.as_ref() != Some(&want) {
                                    viol.push((format!("C11|probe-differs|{}|{}", op.name(), kinds), format!("after {}: library reports {:?}, model {:?}", opdesc, pr, want)));
                                }
                                if len == 0 {
                                    counters.push("state:empty".into());
                                }
                                if len == cap {
                                    counters.push("state:full".into());
                                }
                                if let Desc::Vec { len: l, .. } | Desc::Str { len: l } = nd2 {
                                    if len == l.max_usize() {
                                        counters.push("state:len=L::MAX".into());
                                    }
                                }
                                // equality / ordering against twins (only for top-level containers: a twin needs its own buffer)
                                if sel.path.is_empty() && rng.chance(1, 3) {
                                    let other = if rng.chance(1, 2) { model.clone() } else { gen_value(d, &mut rng, 8) };
                                    let on = extent_of(d, &other) + rng.range(0, 8);
                                    if let Ok(img) = encode(d, &other, on, &EncOpts::default(), &mut rng) {
                                        let mut ar3 = Arena::new(on, off, Place::Tail, 9);
                                        ar3.fill_from(&img);
                                        let got = root.as_dyn().cmp_with(ar3.slice());
                                        let want = (model_eq(d, &model, &other), model_cmp(d, &model, &other));
                                        if got != Some(want) {
                                            viol.push((format!("C11|comparison-differs|{}", kinds), format!("after {}: (==, partial_cmp) against {} is {:?}, model {:?}", opdesc, other.short(), got, want)));
                                        }
                                        counters.push("twin-compared".into());
                                    }
                                }
                            }
                        }
                    }
                    if prop == "C12" {
                        if let Some((Desc::Flex { .. }, nv2)) = node_at(d, &model, &sel.path) {
                            let len = nv2.fields().len();
                            let mut pr = None;
                            visit_at(root.as_dyn(), &sel.path, &mut |nn| pr = nn.probe());
                            if pr.as_ref().map(|p| (p.len, p.is_empty, p.iter_count)) != Some((len, len == 0, Some(len))) {
                                viol.push((format!("C12|probe-differs|{}|{}", op.name(), kinds), format!("after {}: library reports {:?}, model len {}", opdesc, pr, len)));
                            }
                            if matches!(op, Op::FPop | Op::FTruncate(_)) && nv.fields().len() >= 3 {
                                counters.push("pop-or-truncate-on-3+".into());
                            }
                        }
                        if sel.path.len() >= 1 {
                            // an edit inside an item: is it a non-last item?
                            counters.push("edit-inside-item".into());
                        }
                    }
                    // C14 / C12: bytes outside the part being changed
                    if (prop == "C14" || prop == "C12") && !lean {
                        let coarse_prefix: &[u32] = &sel.path;
                        if let Some((o, l, p)) = recs_differ(&bytes_b, &bytes_a, &dec_b.parsed.recs, Some(coarse_prefix)) {
                            viol.push((format!("{}|sibling-bytes-changed|{}|{}", prop, op.name(), kinds), format!("{} changed bytes [{}..{}) of the unrelated sub-object at path {:?}", opdesc, o, o + l, p)));
                        }
                        // FlexVec operations: payload of the items that stay
                        if let Desc::Flex { .. } = nd {
                            let keep = match &op {
                                Op::FPush(..) | Op::FPushDefault => nv.fields().len(),
                                Op::FPop => nv.fields().len().saturating_sub(1),
                                Op::FTruncate(k) => (*k).min(nv.fields().len()),
                                _ => 0,
                            };
                            for r in &dec_b.parsed.recs {
                                if r.path.len() > sel.path.len() && r.path.starts_with(&sel.path) && (r.path[sel.path.len()] as usize) < keep {
                                    if r.off + r.len > bytes_a.len() || bytes_a[r.off..r.off + r.len] != bytes_b[r.off..r.off + r.len] {
                                        viol.push((format!("{}|other-item-bytes-changed|{}|{}", prop, op.name(), kinds), format!("{} changed bytes [{}..{}) of item {}", opdesc, r.off, r.off + r.len, r.path[sel.path.len()])));
                                        break;
                                    }
                                }
                            }
                        }
                    }
                    keys.push(mix(hash_str(vt.name) ^ mix(model.hash64()) ^ mix(hash_str(op.name())).rotate_left(5)));
                    let _ = addr;
                    prev = Some(dec_a);
                }
            })
        });
        rep.evaluations += steps_done.max(1);
        rep.count("histories");
        for c in counters {
            rep.count(&c);
        }
        for k in keys {
            rep.key(k);
        }
        if let Some(h) = harness_err {
            rep.harness_error(format!("idx={} {}", idx, h));
        }
        let canary = if lean { Vec::new() } else { arena.check_canaries() };
        if !canary.is_empty() {
            rep.violation(
                format!("{}|wrote-outside-slice|{}", prop, kind_path(d)),
                format!("{}: bytes outside the {}-byte slice changed at offsets {:?} during {:?}", vt.name, n, &canary[..canary.len().min(6)], hist.borrow().last()),
                cjb(&hist.borrow()),
            );
        }
        for (sig, what) in viol {
            rep.violation(sig, format!("{}: {}", vt.name, what), cjb(&hist.borrow()));
        }
        match res {
            Err(p) if is_harness_panic(&p) => rep.harness_error(format!("idx={} {}", idx, p)),
            Err(p) => rep.violation(format!("{}|panic|construct|{}", prop, panic_site(&p)), format!("{}: {}", vt.name, p), cjb(&hist.borrow())),
            Ok(Err(e)) => rep.harness_error(format!("idx={} initial emplace of {} into {} bytes (need {}) failed: {:?}", idx, vt.name, n, need, e)),
            Ok(Ok(())) => {}
        }
        let _ = check_view;
        rep.sample(5, || cjb(&hist.borrow()));
    });
}

fn arena_slice_mut(a: &mut Arena) -> &mut [u8] {
    a.slice_mut()
}

fn short_op(op: &Op) -> String {
    let s = match op {
        Op::Set(v) | Op::VPush(v) => v.short(),
        Op::Assign(v, st) => format!("{} style {}", v.short(), st % 6),
        Op::FPush(v, st) => format!("{} style {}", v.short(), st % 6),
        Op::VPushSlice(v) | Op::VExtend(v) | Op::VIterMutSet(v) => format!("{} items", v.len()),
        Op::VTruncate(k) | Op::VRemove(k) | Op::VSwapRemove(k) | Op::FTruncate(k) => format!("{}", k),
        Op::VResize(k, v) => format!("{} {}", k, v.short()),
        Op::VSetIdx(k, v) => format!("{} {}", k, v.short()),
        Op::SPushChar(c) => format!("{:?}", c),
        Op::SPushStr(s) => format!("{} bytes", s.len()),
        _ => String::new(),
    };
    if s.len() > 80 {
        format!("{}…", &s[..s.char_indices().take_while(|(i, _)| *i < 80).last().map(|(i, c)| i + c.len_utf8()).unwrap_or(0)])
    } else {
        s
    }
}

/// why the replacement of an Assign does not fit
fn no_room_cause(d: &Desc, op: &Op, avail: usize) -> &'static str {
    let v = match op {
        Op::Assign(v, _) => v,
        _ => return "-",
    };
    match (d, v) {
        (Desc::Enum { sized: false, .. }, Value::Var(i, _)) => {
            let region = floor_to(avail, d.align()).saturating_sub(d.unsized_data_off());
            if region < d.variant_min(*i) {
                "variant-does-not-fit"
            } else {
                "tail-does-not-fit"
            }
        }
        (Desc::Struct { .. }, _) => "tail-does-not-fit",
        _ => "content-does-not-fit",
    }
}

/// Does the initialiser of an unsized enum somewhere down the tail chain of the replacement refuse (its variant's
/// minimal size does not fit) *after* an enclosing enum has passed its own check and written its tag?
fn nested_enum_refuses(d: &Desc, op: &Op, avail: usize) -> bool {
    fn go(d: &Desc, v: &Value, avail: usize, under_enum: bool) -> bool {
        match (d, v) {
            (Desc::Enum { sized: false, variants, .. }, Value::Var(i, f)) => {
                let region = floor_to(avail, d.align()).saturating_sub(d.unsized_data_off());
                if region < d.variant_min(*i) {
                    return under_enum;
                }
                let fields = &variants[*i];
                match fields.last() {
                    Some(l) if !l.is_sized() => {
                        let (offs, _, _) = c_struct(fields);
                        go(l, &f[fields.len() - 1], region.saturating_sub(*offs.last().unwrap()), true)
                    }
                    _ => false,
                }
            }
            (Desc::Struct { sized: false, fields, .. }, Value::Struct(f)) => {
                let (offs, _, _) = c_struct(fields);
                go(fields.last().unwrap(), &f[fields.len() - 1], floor_to(avail, d.align()).saturating_sub(*offs.last().unwrap()), under_enum)
            }
            _ => false,
        }
    }
    match op {
        Op::Assign(v, _) => go(d, v, avail, false),
        _ => false,
    }
}

/// which real emplacer an Assign uses at the top of the target (mirrors `Shape::with_emp`)
fn emp_kind(d: &Desc, op: &Op) -> &'static str {
    let (v, style) = match op {
        Op::Assign(v, s) => (v, *s),
        _ => return "-",
    };
    match d {
        Desc::Vec { .. } => match (style % 3, v.fields().len()) {
            (0, 0..=4) => "vec::FromArray",
            (2, 0) => "vec::Empty",
            _ => "vec::FromIterator",
        },
        Desc::Str { .. } => match (style % 3, v) {
            (2, Value::Str(s)) if s.is_empty() => "string::Empty",
            _ => "string::FromStr",
        },
        Desc::Flex { .. } => {
            if v.fields().is_empty() && style % 2 == 1 {
                "flex::Empty"
            } else {
                "flex::FromIterator"
            }
        }
        Desc::Struct { .. } => "StructInit",
        Desc::Enum { .. } => "EnumInit",
        _ => "sized",
    }
}
