//! C16: portable scalars — fixed byte order, alignment 1, lossless conversion,
//! ordering / arithmetic / conversions identical to the native type
//! (including whether the native operation panics, in the same build profile),
//! equality == equality of the stored bytes, Bool validation.

use crate::engine::*;
use crate::json::J;
use crate::rng::{mix, Rng};
use flatty::portable::{be, le, Bool};
use flatty::traits::{FlatBase, FlatSized, FlatUnsized, FlatValidate};
use num_traits::{Bounded, FromPrimitive, NumCast, One, Signed, ToPrimitive, Zero};

struct Fail {
    ty: &'static str,
    what: String,
    detail: String,
}

fn boundary(size: usize) -> Vec<u128> {
    let bits = 8 * size as u32;
    let mask: u128 = if bits == 128 { u128::MAX } else { (1u128 << bits) - 1 };
    let top = 1u128 << (bits - 1);
    let mut v = vec![0, 1, 2, mask, mask - 1, top, top - 1, top + 1, 0x80, 0x7f, 0xff, 0x100];
    for i in 0..bits {
        v.push((1u128 << i) & mask);
        v.push(((1u128 << i) - 1) & mask);
        // the same powers of two seen as negative numbers (-2^i, -2^i - 1, -2^i + 1): the minima of the narrower types
        v.push(mask.wrapping_sub(1u128 << i).wrapping_add(1) & mask);
        v.push(mask.wrapping_sub(1u128 << i) & mask);
        v.push(mask.wrapping_sub(1u128 << i).wrapping_add(2) & mask);
    }
    // byte-distinct and byte-palindromic patterns
    let mut x = 0u128;
    let mut y = 0u128;
    for i in 0..size {
        x |= ((i as u128) + 1) << (8 * i);
        y |= (if i < size / 2 { i + 1 } else { size - i } as u128) << (8 * i);
    }
    v.push(x);
    v.push(y);
    v.push(0x0102_0304_0506_0708u128 & mask);
    v.push(0xfffe_fdfc_fbfa_f9f8u128 & mask);
    v.sort_unstable();
    v.dedup();
    v
}

macro_rules! same {
    ($fails:expr, $ty:expr, $what:expr, $a:expr, $b:expr, $ctx:expr) => {{
        let (x, y) = ($a, $b);
        if x != y {
            $fails.push(Fail { ty: $ty, what: $what.to_string(), detail: format!("{}: portable {:?} native {:?}", ($ctx)(), x, y) });
        }
    }};
}

/// compare two guarded computations: both panic, or both succeed with equal results
macro_rules! same_g {
    ($fails:expr, $ty:expr, $what:expr, $a:expr, $b:expr, $ctx:expr) => {{
        let x = guarded_quiet(|| $a);
        let y = guarded_quiet(|| $b);
        match (&x, &y) {
            (Ok(p), Ok(n)) => {
                if p != n {
                    $fails.push(Fail { ty: $ty, what: $what.to_string(), detail: format!("{}: portable {:?} native {:?}", ($ctx)(), p, n) });
                }
            }
            (Err(_), Err(_)) => {}
            _ => $fails.push(Fail { ty: $ty, what: format!("{}-panic-mismatch", $what), detail: format!("{}: portable {:?} native {:?}", ($ctx)(), x.as_ref().map(|_| "ok").map_err(|e| e.clone()), y.as_ref().map(|_| "ok").map_err(|e| e.clone())) }),
        }
    }};
}

macro_rules! int_checks {
    ($fname:ident, $P:ty, $N:ty, $name:expr, $le:expr, $signed:tt) => {
        fn $fname(vals: &[u128], partners: &[u128], fails: &mut Vec<Fail>, evals: &mut u64) {
            let ty = $name;
            same!(fails, ty, "ALIGN", <$P as FlatBase>::ALIGN, 1usize, || "const");
            same!(fails, ty, "SIZE", <$P as FlatSized>::SIZE, core::mem::size_of::<$N>(), || "const");
            same!(fails, ty, "size_of", core::mem::size_of::<$P>(), core::mem::size_of::<$N>(), || "const");
            same!(fails, ty, "zero", <$N as From<$P>>::from(<$P as Zero>::zero()), 0 as $N, || "const");
            same!(fails, ty, "one", <$N as From<$P>>::from(<$P as One>::one()), 1 as $N, || "const");
            same!(fails, ty, "min_value", <$N as From<$P>>::from(<$P as Bounded>::min_value()), <$N>::MIN, || "const");
            same!(fails, ty, "max_value", <$N as From<$P>>::from(<$P as Bounded>::max_value()), <$N>::MAX, || "const");
            for &xa in vals {
                *evals += 1;
                let a = xa as $N;
                let pa = <$P as From<$N>>::from(a);
                let c = || format!("a={}", a);
                let want: Vec<u8> = if $le { a.to_le_bytes().to_vec() } else { a.to_be_bytes().to_vec() };
                same!(fails, ty, "to_bytes", pa.to_bytes().to_vec(), want.clone(), c);
                same!(fails, ty, "as_bytes", pa.as_bytes().to_vec(), want.clone(), c);
                same!(fails, ty, "roundtrip", <$N as From<$P>>::from(pa), a, c);
                let mut arr = [0u8; core::mem::size_of::<$N>()];
                arr.copy_from_slice(&want);
                same!(fails, ty, "from_bytes", <$N as From<$P>>::from(<$P>::from_bytes(arr)), a, c);
                same!(fails, ty, "validate", <$P as FlatValidate>::validate(&want).is_ok(), true, c);
                same!(fails, ty, "is_zero", pa.is_zero(), a == 0, c);
                same!(fails, ty, "to_u64", pa.to_u64(), a.to_u64(), c);
                same!(fails, ty, "to_i64", pa.to_i64(), a.to_i64(), c);
                same!(fails, ty, "to_usize", pa.to_usize(), a.to_usize(), c);
                same!(fails, ty, "to_u8", pa.to_u8(), a.to_u8(), c);
                same!(fails, ty, "to_i32", pa.to_i32(), a.to_i32(), c);
                same!(fails, ty, "to_f64", pa.to_f64().map(|f| f.to_bits()), a.to_f64().map(|f| f.to_bits()), c);
                // conversions into the portable type from the integer domains containers use
                let u = xa as u64;
                let i = xa as u64 as i64;
                same!(fails, ty, "from_u64", <$P as FromPrimitive>::from_u64(u).map(<$N as From<$P>>::from), <$N as FromPrimitive>::from_u64(u), || format!("u={}", u));
                same!(fails, ty, "from_i64", <$P as FromPrimitive>::from_i64(i).map(<$N as From<$P>>::from), <$N as FromPrimitive>::from_i64(i), || format!("i={}", i));
                same!(fails, ty, "from_usize", <$P as FromPrimitive>::from_usize(u as usize).map(<$N as From<$P>>::from), <$N as FromPrimitive>::from_usize(u as usize), || format!("u={}", u));
                same!(fails, ty, "NumCast-u64", <$P as NumCast>::from(u).map(<$N as From<$P>>::from), <$N as NumCast>::from(u), || format!("u={}", u));
                same!(fails, ty, "NumCast-i64", <$P as NumCast>::from(i).map(<$N as From<$P>>::from), <$N as NumCast>::from(i), || format!("i={}", i));
                same!(fails, ty, "NumCast-f64", <$P as NumCast>::from(i as f64 * 1.5).map(<$N as From<$P>>::from), <$N as NumCast>::from(i as f64 * 1.5), || format!("f={}", i as f64 * 1.5));
                same!(fails, ty, "NumCast-self", <$P as NumCast>::from(pa).map(<$N as From<$P>>::from), <$N as NumCast>::from(a), c);
                int_checks!(@signed $signed, fails, ty, $P, $N, pa, a, c, partners);
                for &xb in partners {
                    *evals += 1;
                    let b = xb as $N;
                    let pb = <$P as From<$N>>::from(b);
                    let c2 = || format!("a={} b={}", a, b);
                    same!(fails, ty, "cmp", pa.cmp(&pb), a.cmp(&b), c2);
                    same!(fails, ty, "partial_cmp", pa.partial_cmp(&pb), a.partial_cmp(&b), c2);
                    same!(fails, ty, "lt", pa < pb, a < b, c2);
                    same!(fails, ty, "eq", pa == pb, a == b, c2);
                    same!(fails, ty, "eq-vs-bytes", pa == pb, pa.to_bytes() == pb.to_bytes(), c2);
                    same_g!(fails, ty, "add", <$N as From<$P>>::from(pa + pb), a + b, c2);
                    same_g!(fails, ty, "sub", <$N as From<$P>>::from(pa - pb), a - b, c2);
                    same_g!(fails, ty, "mul", <$N as From<$P>>::from(pa * pb), a * b, c2);
                    same_g!(fails, ty, "div", <$N as From<$P>>::from(pa / pb), a / b, c2);
                    same_g!(fails, ty, "rem", <$N as From<$P>>::from(pa % pb), a % b, c2);
                    same_g!(fails, ty, "add_assign", { let mut t = pa; t += pb; <$N as From<$P>>::from(t) }, { let mut t = a; t += b; t }, c2);
                    same_g!(fails, ty, "sub_assign", { let mut t = pa; t -= pb; <$N as From<$P>>::from(t) }, { let mut t = a; t -= b; t }, c2);
                    same_g!(fails, ty, "mul_assign", { let mut t = pa; t *= pb; <$N as From<$P>>::from(t) }, { let mut t = a; t *= b; t }, c2);
                    same_g!(fails, ty, "div_assign", { let mut t = pa; t /= pb; <$N as From<$P>>::from(t) }, { let mut t = a; t /= b; t }, c2);
                    same_g!(fails, ty, "rem_assign", { let mut t = pa; t %= pb; <$N as From<$P>>::from(t) }, { let mut t = a; t %= b; t }, c2);
                }
            }
        }
    };
    (@signed true, $fails:expr, $ty:expr, $P:ty, $N:ty, $pa:expr, $a:expr, $c:expr, $partners:expr) => {
        same_g!($fails, $ty, "neg", <$N as From<$P>>::from(-$pa), -$a, $c);
        same_g!($fails, $ty, "abs", <$N as From<$P>>::from(Signed::abs(&$pa)), Signed::abs(&$a), $c);
        same_g!($fails, $ty, "signum", <$N as From<$P>>::from(Signed::signum(&$pa)), Signed::signum(&$a), $c);
        same!($fails, $ty, "is_positive", Signed::is_positive(&$pa), Signed::is_positive(&$a), $c);
        same!($fails, $ty, "is_negative", Signed::is_negative(&$pa), Signed::is_negative(&$a), $c);
        for &xb in $partners.iter().take(6) {
            let b = xb as $N;
            let pb = <$P as From<$N>>::from(b);
            same_g!($fails, $ty, "abs_sub", <$N as From<$P>>::from(Signed::abs_sub(&$pa, &pb)), Signed::abs_sub(&$a, &b), || format!("{} b={}", ($c)(), b));
        }
    };
    (@signed false, $fails:expr, $ty:expr, $P:ty, $N:ty, $pa:expr, $a:expr, $c:expr, $partners:expr) => {};
}

int_checks!(le_u16, le::U16, u16, "le::U16", true, false);
int_checks!(le_u32, le::U32, u32, "le::U32", true, false);
int_checks!(le_u64, le::U64, u64, "le::U64", true, false);
int_checks!(le_i16, le::I16, i16, "le::I16", true, true);
int_checks!(le_i32, le::I32, i32, "le::I32", true, true);
int_checks!(le_i64, le::I64, i64, "le::I64", true, true);
int_checks!(be_u16, be::U16, u16, "be::U16", false, false);
int_checks!(be_u32, be::U32, u32, "be::U32", false, false);
int_checks!(be_u64, be::U64, u64, "be::U64", false, false);
int_checks!(be_i16, be::I16, i16, "be::I16", false, true);
int_checks!(be_i32, be::I32, i32, "be::I32", false, true);
int_checks!(be_i64, be::I64, i64, "be::I64", false, true);

/// arithmetic results: any NaN equals any NaN (the payload of a computed NaN is not specified by Rust)
fn canon32(x: f32) -> u32 {
    if x.is_nan() {
        0x7fc0_0000
    } else {
        x.to_bits()
    }
}
fn canon64(x: f64) -> u64 {
    if x.is_nan() {
        0x7ff8_0000_0000_0000
    } else {
        x.to_bits()
    }
}

/// 64-bit integers at, just below and just above the midpoints between neighbouring f32 / f64 values
/// (`2^k + j * ulp + ulp/2 + {-1, 0, +1}` for every exponent k and a few mantissas j).
fn rounding_stimuli() -> Vec<u64> {
    let mut v = Vec::new();
    for mant in [24u32, 53] {
        for k in mant..64 {
            let ulp = 1u64 << (k - mant + 1);
            let half = ulp >> 1;
            for j in [0u64, 1, 2, (1 << (mant - 2)) + 1, (1 << (mant - 1)) - 1] {
                let base = (1u64 << k).wrapping_add(j.wrapping_mul(ulp));
                for d in [half.wrapping_sub(1), half, half + 1, ulp - 1, 1] {
                    v.push(base.wrapping_add(d));
                }
            }
        }
    }
    v
}

macro_rules! float_checks {
    ($fname:ident, $P:ty, $N:ty, $B:ty, $name:expr, $le:expr, $canon:ident) => {
        fn $fname(vals: &[u128], partners: &[u128], fails: &mut Vec<Fail>, evals: &mut u64) {
            let ty = $name;
            same!(fails, ty, "ALIGN", <$P as FlatBase>::ALIGN, 1usize, || "const");
            same!(fails, ty, "SIZE", <$P as FlatSized>::SIZE, core::mem::size_of::<$N>(), || "const");
            same!(fails, ty, "zero", <$N as From<$P>>::from(<$P as Zero>::zero()).to_bits(), (0.0 as $N).to_bits(), || "const");
            same!(fails, ty, "one", <$N as From<$P>>::from(<$P as One>::one()).to_bits(), (1.0 as $N).to_bits(), || "const");
            same!(fails, ty, "min_value", <$N as From<$P>>::from(<$P as Bounded>::min_value()).to_bits(), <$N>::MIN.to_bits(), || "const");
            same!(fails, ty, "max_value", <$N as From<$P>>::from(<$P as Bounded>::max_value()).to_bits(), <$N>::MAX.to_bits(), || "const");
            // integers around the rounding midpoints of the 24-bit and 53-bit mantissas: a conversion that rounds twice
            // (integer -> f64 -> f32) or truncates differs from the native conversion only for such values
            for u in rounding_stimuli() {
                *evals += 1;
                let i = u as i64;
                same!(fails, ty, "from_u64", <$P as FromPrimitive>::from_u64(u).map(|x| <$N as From<$P>>::from(x).to_bits()), <$N as FromPrimitive>::from_u64(u).map(|x| x.to_bits()), || format!("u={}", u));
                same!(fails, ty, "from_i64", <$P as FromPrimitive>::from_i64(i).map(|x| <$N as From<$P>>::from(x).to_bits()), <$N as FromPrimitive>::from_i64(i).map(|x| x.to_bits()), || format!("i={}", i));
                same!(fails, ty, "from_i64", <$P as FromPrimitive>::from_i64(i.wrapping_neg()).map(|x| <$N as From<$P>>::from(x).to_bits()), <$N as FromPrimitive>::from_i64(i.wrapping_neg()).map(|x| x.to_bits()), || format!("i={}", i.wrapping_neg()));
                same!(fails, ty, "from_usize", <$P as FromPrimitive>::from_usize(u as usize).map(|x| <$N as From<$P>>::from(x).to_bits()), <$N as FromPrimitive>::from_usize(u as usize).map(|x| x.to_bits()), || format!("u={}", u));
                same!(fails, ty, "NumCast-u64", <$P as NumCast>::from(u).map(|x| <$N as From<$P>>::from(x).to_bits()), <$N as NumCast>::from(u).map(|x| x.to_bits()), || format!("u={}", u));
                same!(fails, ty, "NumCast-i64", <$P as NumCast>::from(i).map(|x| <$N as From<$P>>::from(x).to_bits()), <$N as NumCast>::from(i).map(|x| x.to_bits()), || format!("i={}", i));
            }
            for &xa in vals {
                *evals += 1;
                let a = <$N>::from_bits(xa as $B);
                let pa = <$P as From<$N>>::from(a);
                let c = || format!("a=bits {:#x}", xa as $B);
                let want: Vec<u8> = if $le { a.to_le_bytes().to_vec() } else { a.to_be_bytes().to_vec() };
                same!(fails, ty, "to_bytes", pa.to_bytes().to_vec(), want.clone(), c);
                same!(fails, ty, "as_bytes", pa.as_bytes().to_vec(), want.clone(), c);
                same!(fails, ty, "roundtrip", <$N as From<$P>>::from(pa).to_bits(), a.to_bits(), c);
                same!(fails, ty, "is_zero", pa.is_zero(), a == 0.0, c);
                same!(fails, ty, "to_u64", pa.to_u64(), a.to_u64(), c);
                same!(fails, ty, "to_i64", pa.to_i64(), a.to_i64(), c);
                same!(fails, ty, "to_usize", pa.to_usize(), a.to_usize(), c);
                same!(fails, ty, "neg", <$N as From<$P>>::from(-pa).to_bits(), (-a).to_bits(), c);
                let u = xa as u64;
                let i = xa as u64 as i64;
                same!(fails, ty, "from_u64", <$P as FromPrimitive>::from_u64(u).map(|x| <$N as From<$P>>::from(x).to_bits()), <$N as FromPrimitive>::from_u64(u).map(|x| x.to_bits()), || format!("u={}", u));
                same!(fails, ty, "from_i64", <$P as FromPrimitive>::from_i64(i).map(|x| <$N as From<$P>>::from(x).to_bits()), <$N as FromPrimitive>::from_i64(i).map(|x| x.to_bits()), || format!("i={}", i));
                same!(fails, ty, "NumCast-u64", <$P as NumCast>::from(u).map(|x| <$N as From<$P>>::from(x).to_bits()), <$N as NumCast>::from(u).map(|x| x.to_bits()), || format!("u={}", u));
                for &xb in partners {
                    *evals += 1;
                    let b = <$N>::from_bits(xb as $B);
                    let pb = <$P as From<$N>>::from(b);
                    let c2 = || format!("a=bits {:#x} b=bits {:#x}", xa as $B, xb as $B);
                    same!(fails, ty, "partial_cmp", pa.partial_cmp(&pb), a.partial_cmp(&b), c2);
                    same!(fails, ty, "lt", pa < pb, a < b, c2);
                    same!(fails, ty, "eq-vs-bytes", pa == pb, pa.to_bytes() == pb.to_bytes(), c2);
                    same!(fails, ty, "add", $canon(<$N as From<$P>>::from(pa + pb)), $canon(a + b), c2);
                    same!(fails, ty, "sub", $canon(<$N as From<$P>>::from(pa - pb)), $canon(a - b), c2);
                    same!(fails, ty, "mul", $canon(<$N as From<$P>>::from(pa * pb)), $canon(a * b), c2);
                    same!(fails, ty, "div", $canon(<$N as From<$P>>::from(pa / pb)), $canon(a / b), c2);
                    same!(fails, ty, "rem", $canon(<$N as From<$P>>::from(pa % pb)), $canon(a % b), c2);
                    same!(fails, ty, "add_assign", { let mut t = pa; t += pb; $canon(<$N as From<$P>>::from(t)) }, { let mut t = a; t += b; $canon(t) }, c2);
                    same!(fails, ty, "sub_assign", { let mut t = pa; t -= pb; $canon(<$N as From<$P>>::from(t)) }, { let mut t = a; t -= b; $canon(t) }, c2);
                    same!(fails, ty, "mul_assign", { let mut t = pa; t *= pb; $canon(<$N as From<$P>>::from(t)) }, { let mut t = a; t *= b; $canon(t) }, c2);
                    same!(fails, ty, "div_assign", { let mut t = pa; t /= pb; $canon(<$N as From<$P>>::from(t)) }, { let mut t = a; t /= b; $canon(t) }, c2);
                    same!(fails, ty, "rem_assign", { let mut t = pa; t %= pb; $canon(<$N as From<$P>>::from(t)) }, { let mut t = a; t %= b; $canon(t) }, c2);
                }
            }
        }
    };
}
float_checks!(le_f32, le::F32, f32, u32, "le::F32", true, canon32);
float_checks!(le_f64, le::F64, f64, u64, "le::F64", true, canon64);
float_checks!(be_f32, be::F32, f32, u32, "be::F32", false, canon32);
float_checks!(be_f64, be::F64, f64, u64, "be::F64", false, canon64);

fn bool_checks(fails: &mut Vec<Fail>, evals: &mut u64) {
    let ty = "Bool";
    same!(fails, ty, "ALIGN", <Bool as FlatBase>::ALIGN, 1usize, || "const");
    same!(fails, ty, "SIZE", <Bool as FlatSized>::SIZE, 1usize, || "const");
    for b in 0..=255u8 {
        *evals += 1;
        let r = <Bool as FlatValidate>::validate(&[b]);
        same!(fails, ty, "validate", r.is_ok(), b <= 1, || format!("byte={}", b));
        if b <= 1 {
            let v = Bool::from_bytes(&[b]).map(|x| bool::from(*x));
            same!(fails, ty, "from_bytes", v.ok(), Some(b == 1), || format!("byte={}", b));
        }
    }
    for x in [false, true] {
        let px = Bool::from(x);
        same!(fails, ty, "stored-byte", px.as_bytes().to_vec(), vec![x as u8], || format!("x={}", x));
        same!(fails, ty, "roundtrip", bool::from(px), x, || format!("x={}", x));
        same!(fails, ty, "not", bool::from(!px), !x, || format!("x={}", x));
        for y in [false, true] {
            *evals += 1;
            let py = Bool::from(y);
            let c = || format!("x={} y={}", x, y);
            same!(fails, ty, "and", bool::from(px & py), x & y, c);
            same!(fails, ty, "or", bool::from(px | py), x | y, c);
            same!(fails, ty, "xor", bool::from(px ^ py), x ^ y, c);
            same!(fails, ty, "and_assign", { let mut t = px; t &= py; bool::from(t) }, x & y, c);
            same!(fails, ty, "or_assign", { let mut t = px; t |= py; bool::from(t) }, x | y, c);
            same!(fails, ty, "xor_assign", { let mut t = px; t ^= py; bool::from(t) }, x ^ y, c);
            same!(fails, ty, "eq", px == py, x == y, c);
            same!(fails, ty, "cmp", px.cmp(&py), x.cmp(&y), c);
        }
    }
    same!(fails, ty, "default", bool::from(Bool::default()), false, || "default");
}

type CheckFn = fn(&[u128], &[u128], &mut Vec<Fail>, &mut u64);
const TYPES: &[(&str, usize, bool, CheckFn)] = &[
    ("le::U16", 2, false, le_u16),
    ("le::I16", 2, false, le_i16),
    ("be::U16", 2, false, be_u16),
    ("be::I16", 2, false, be_i16),
    ("le::U32", 4, false, le_u32),
    ("le::I32", 4, false, le_i32),
    ("be::U32", 4, false, be_u32),
    ("be::I32", 4, false, be_i32),
    ("le::U64", 8, false, le_u64),
    ("le::I64", 8, false, le_i64),
    ("be::U64", 8, false, be_u64),
    ("be::I64", 8, false, be_i64),
    ("le::F32", 4, true, le_f32),
    ("be::F32", 4, true, be_f32),
    ("le::F64", 8, true, le_f64),
    ("be::F64", 8, true, be_f64),
];

fn float_specials(size: usize) -> Vec<u128> {
    if size == 4 {
        [0.0f32, -0.0, 1.0, -1.0, f32::INFINITY, f32::NEG_INFINITY, f32::NAN, f32::MIN_POSITIVE, f32::MAX, f32::MIN, f32::EPSILON, 1.5, 1e10, 16777216.0, 4294967296.0]
            .iter()
            .map(|f| f.to_bits() as u128)
            .chain([0x7fc0_0001u128, 0xffc1_2345, 0x7f80_0001, 0x0000_0001, 0x8000_0001])
            .collect()
    } else {
        [0.0f64, -0.0, 1.0, -1.0, f64::INFINITY, f64::NEG_INFINITY, f64::NAN, f64::MIN_POSITIVE, f64::MAX, f64::MIN, f64::EPSILON, 1.5, 1e300, 9007199254740992.0, 18446744073709551616.0]
            .iter()
            .map(|f| f.to_bits() as u128)
            .chain([0x7ff8_0000_0000_0001u128, 0xfff8_1234_5678_9abc, 0x7ff0_0000_0000_0001, 1, 0x8000_0000_0000_0001])
            .collect()
    }
}

pub fn run(ctx: &Ctx, rep: &mut Report) {
    ctx.for_cases(rep, |idx, rep| {
        let mut rng = Rng::derive(ctx.seed, idx, 0xC16);
        let mut fails: Vec<Fail> = Vec::new();
        let mut evals = 0u64;
        let (name, desc): (&str, String);
        if ctx.sub == "exhaustive16" {
            // 4 types x 256 blocks of 256 consecutive values: the whole 16-bit domain
            if idx >= 4 * 256 {
                return;
            }
            let (tname, size, _f, f) = TYPES[(idx / 256) as usize];
            let base = (idx % 256) as u128 * 256;
            let vals: Vec<u128> = (0..256).map(|i| base + i).collect();
            let mut partners = boundary(size);
            partners.truncate(12);
            partners.extend([0x7fffu128, 0x8000, 0xffff, 0xfffe, 0x00ff, 0x0100]);
            for _ in 0..6 {
                partners.push(rng.next() as u128 & 0xffff);
            }
            f(&vals, &partners, &mut fails, &mut evals);
            name = tname;
            desc = format!("values {:#x}..{:#x} x {} partners", base, base + 255, partners.len());
            rep.count("exhaustive16-blocks");
        } else {
            let k = (idx % 17) as usize;
            if k == 16 {
                bool_checks(&mut fails, &mut evals);
                name = "Bool";
                desc = "all 256 bytes, all operator combinations".into();
            } else {
                let (tname, size, is_float, f) = TYPES[k];
                let mask: u128 = (1u128 << (8 * size)) - 1;
                let mut vals = if idx < 17 * 4 && !ctx.lite { boundary(size) } else { Vec::new() };
                if is_float && idx < 17 * 4 {
                    vals.extend(float_specials(size));
                }
                let nrand = if vals.is_empty() { 64 } else { 8 };
                for _ in 0..nrand {
                    vals.push((((rng.next() as u128) << 64) | rng.next() as u128) & mask);
                }
                let mut partners: Vec<u128> = Vec::new();
                let bnd = boundary(size);
                for _ in 0..10 {
                    partners.push(*rng.pick(&bnd));
                }
                if is_float {
                    let sp = float_specials(size);
                    for _ in 0..6 {
                        partners.push(*rng.pick(&sp));
                    }
                }
                for _ in 0..10 {
                    partners.push((((rng.next() as u128) << 64) | rng.next() as u128) & mask);
                }
                if idx < 17 * 4 {
                    partners.extend(bnd.iter().copied());
                }
                if ctx.lite {
                    // interpreter mode: a handful of values per type (the interpreter checks the unsafe parts, natives do the volume)
                    vals.truncate(3);
                    partners.truncate(3);
                }
                f(&vals, &partners, &mut fails, &mut evals);
                name = tname;
                desc = format!("{} values x {} partners", vals.len(), partners.len());
            }
        }
        rep.evaluations += evals;
        rep.count(&format!("type:{}", name));
        rep.key(mix(idx ^ 0xC16 ^ mix(ctx.seed)));
        let mut seen = std::collections::BTreeSet::new();
        for f in fails {
            let sig = format!("C16|{}|{}", f.ty, f.what);
            if seen.insert(sig.clone()) {
                rep.violation(sig, format!("{} {}: {}", f.ty, f.what, f.detail), case_json(ctx, idx).set("type", J::s(f.ty)).set("block", J::s(desc.clone())));
            }
        }
        rep.sample(5, || case_json(ctx, idx).set("type", J::s(name)).set("block", J::s(desc.clone())).set("comparisons", J::i(evals)));
    });
}
