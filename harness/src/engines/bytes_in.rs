//! C01 (validation is total) and C02 (accepts exactly the well-formed
//! encodings; the returned view is consistent).

use crate::arena::{Arena, Place};
use crate::engine::*;
use crate::inputs::*;
use crate::json::J;
use crate::model::*;
use crate::rng::{hash_str, mix, Rng};
use crate::shape::*;

pub fn maxlen(ctx: &Ctx) -> usize {
    if ctx.tier == Tier::Quick {
        256
    } else {
        1024
    }
}

pub fn walk(root: &dyn ShapeDyn, f: &mut dyn FnMut(&dyn ShapeDyn)) {
    f(root);
    let n = root.n_children();
    for i in 0..n.min(256) {
        root.child(i as u32, &mut |c| walk(c, f));
    }
}

/// Consistency checks of an accepted view against the slice it was mapped from.
/// Returns a list of (clause, detail) failures.
pub fn check_view(view: &dyn ShapeDyn, slice_addr: usize, n: usize, expect: Option<&Value>, lite: bool) -> Vec<(String, String)> {
    let mut bad = Vec::new();
    let lo = slice_addr;
    let hi = slice_addr + n;
    let b = view.bytes();
    let (ba, bl) = (b.as_ptr() as usize, b.len());
    if ba < lo || ba + bl > hi {
        bad.push(("as_bytes-outside-slice".to_string(), format!("as_bytes=[{},+{}) slice=[{},+{})", ba - lo, bl, 0, n)));
    }
    if view.size_of_val() > n {
        bad.push(("size_of_val-exceeds-slice".to_string(), format!("size_of_val={} slice={}", view.size_of_val(), n)));
    }
    let mut recs = Vec::new();
    collect_addrs(view, &mut Vec::new(), &mut recs);
    for r in &recs {
        if r.addr < lo || r.addr + r.size_of_val > hi {
            bad.push((
                format!("subobject-outside-slice:{}", r.kind),
                format!("path={:?} at {}+{} slice_len={}", r.path, r.addr as isize - lo as isize, r.size_of_val, n),
            ));
            break;
        }
    }
    let mut lc = None;
    let mut incons: Option<(&'static str, String)> = None;
    walk(view, &mut |node| {
        if let Some(p) = node.probe() {
            if let Some(cap) = p.cap {
                if p.len > cap && lc.is_none() {
                    lc = Some((node.desc().kind(), p.len, cap));
                }
            }
            // the accessors of one container agree with each other
            if incons.is_none() {
                let k = node.desc().kind();
                if p.is_empty != (p.len == 0) {
                    incons = Some((k, format!("is_empty()={} but len()={}", p.is_empty, p.len)));
                } else if p.iter_count.map_or(false, |c| c != p.len) {
                    incons = Some((k, format!("iter().count()={:?} but len()={}", p.iter_count, p.len)));
                } else if let (Some(cap), Some(full)) = (p.cap, p.is_full) {
                    if p.len <= cap && full != (p.len == cap) {
                        incons = Some((k, format!("is_full()={} but len()={} capacity()={}", full, p.len, cap)));
                    } else if let Some(rem) = p.remaining {
                        if p.len <= cap && rem != cap - p.len {
                            incons = Some((k, format!("remaining()={} but len()={} capacity()={}", rem, p.len, cap)));
                        }
                    }
                }
            }
        }
    });
    if let Some((k, l, c)) = lc {
        bad.push((format!("len-exceeds-capacity:{}", k), format!("len={} capacity={}", l, c)));
    }
    if let Some((k, what)) = incons {
        bad.push((format!("accessors-disagree:{}", k), what));
    }
    if let Err(e) = view.revalidate() {
        bad.push(("own-bytes-do-not-revalidate".to_string(), err_text(&e)));
    }
    if !lite || expect.is_some() {
        if let Some(ev) = expect {
            let got = view.read();
            if &got != ev {
                bad.push(("content-differs-from-reference".to_string(), format!("got={} expected={}", got.short(), ev.short())));
            }
        }
    }
    bad
}

pub fn kind_path(d: &Desc) -> String {
    // top-level kind plus the kinds of unsized tails below it
    fn tail(d: &Desc, out: &mut String, depth: usize) {
        if depth > 4 {
            return;
        }
        match d {
            Desc::Struct { fields, sized: false, .. } => {
                if let Some(l) = fields.last() {
                    out.push('>');
                    out.push_str(l.kind());
                    tail(l, out, depth + 1);
                }
            }
            Desc::Flex { item, .. } => {
                out.push('>');
                out.push_str(item.kind());
                tail(item, out, depth + 1);
            }
            Desc::Vec { elem, .. } if elem.size() == 0 => out.push_str(">ZST"),
            _ => {}
        }
    }
    let mut s = d.kind().to_string();
    tail(d, &mut s, 0);
    s
}

fn len_class(d: &Desc, n: usize) -> u64 {
    let m = d.min_size();
    let a = d.align().max(1);
    if n < m {
        0
    } else {
        1 + ((n - m) / a).min(6) as u64 * 4 + (n % a).min(3) as u64
    }
}

pub struct Case {
    pub si: usize,
    pub input: Input,
    pub place: Place,
}

/// Corpus line: "<idx> <shape> <off> <place> <kind> <hex>" (inputs pre-generated natively so that
/// interpreters only run the code under test).
pub fn dump_corpus(ctx: &Ctx, n: u64, path: &str) {
    use std::io::Write;
    let ns = ctx.nshards.max(1);
    let mut files: Vec<_> = (0..ns)
        .map(|s| std::io::BufWriter::new(std::fs::File::create(format!("{}.{}", path, s)).expect("harness: cannot create corpus")))
        .collect();
    for idx in 0..n {
        let c = gen_case(ctx, idx);
        if c.si == usize::MAX {
            break;
        }
        // zero-sized elements: a large length means a long (legitimate) loop, too slow for interpreters
        if let Desc::Vec { elem, len } = &ctx.zoo[c.si].desc {
            if elem.size() == 0 && c.input.bytes.len() >= len.size && read_uint(&c.input.bytes[..len.size], len.endian) > 64 {
                continue;
            }
        }
        let hexs = match crate::json::J::bytes(&c.input.bytes) {
            J::Str(s) => s,
            _ => String::new(),
        };
        let f = &mut files[(idx % ns) as usize];
        let _ = writeln!(f, "{} {} {} {} {} {}", idx, c.si, c.input.off, if c.place == Place::Tail { "T" } else { "I" }, c.input.kind, if hexs.is_empty() { "-".to_string() } else { hexs });
    }
}

fn leak_kind(k: &str) -> &'static str {
    for c in ["random", "random-small", "valid", "valid-trunc", "valid-ext", "mut-len", "mut-offset", "mut-tag", "mut-bool", "mut-utf8", "flip", "sweep"] {
        if c == k {
            return c;
        }
    }
    "corpus"
}

pub fn parse_corpus_line(line: &str) -> Option<(u64, Case)> {
    let p: Vec<&str> = line.split(' ').collect();
    if p.len() != 6 {
        return None;
    }
    let bytes = if p[5] == "-" { Vec::new() } else { crate::json::hex_decode(p[5]) };
    Some((
        p[0].parse().ok()?,
        Case {
            si: p[1].parse().ok()?,
            input: Input { bytes, off: p[2].parse().ok()?, kind: leak_kind(p[4]) },
            place: if p[3] == "T" { Place::Tail } else { Place::Island },
        },
    ))
}

fn gen_case(ctx: &Ctx, idx: u64) -> Case {
    let mut rng = Rng::derive(ctx.seed, idx, hash_str(&ctx.prop));
    if ctx.sub == "sweep" {
        // systematic: (shape, n, off) in mixed radix
        let mut k = idx;
        for (si, vt) in ctx.zoo.iter().enumerate() {
            let a = vt.desc.align();
            let nl = sweep_max(&vt.desc) + 1;
            let tot = (nl * a) as u64 * 2;
            if k < tot {
                let rep = (k % 2) as usize;
                let k2 = (k / 2) as usize;
                let n = k2 / a;
                let off = k2 % a;
                let mut bytes = vec![0u8; n];
                if rep == 0 {
                    rng.fill(&mut bytes);
                } else {
                    // mostly-small bytes so that headers are plausible
                    for b in bytes.iter_mut() {
                        *b = match rng.below(6) {
                            0 => 0,
                            1 => 1,
                            2 => 0xff,
                            3 => rng.below(16) as u8,
                            _ => rng.next() as u8,
                        };
                    }
                }
                return Case { si, input: Input { bytes, off, kind: "sweep" }, place: if n % 2 == 0 { Place::Tail } else { Place::Island } };
            }
            k -= tot;
        }
        return Case { si: usize::MAX, input: Input { bytes: vec![], off: 0, kind: "sweep-end" }, place: Place::Tail };
    }
    let si = rng.below(ctx.zoo.len() as u64) as usize;
    let d = &ctx.zoo[si].desc;
    let input = gen_input(d, &mut rng, maxlen(ctx));
    let place = if rng.chance(1, 2) { Place::Tail } else { Place::Island };
    Case { si, input, place }
}

pub fn sweep_max(d: &Desc) -> usize {
    let elem = match d {
        Desc::Vec { elem, .. } => elem.size(),
        _ => 2,
    };
    d.min_size() + 3 * d.align() + elem
}

pub fn sweep_total(ctx: &Ctx) -> u64 {
    ctx.zoo.iter().map(|vt| ((sweep_max(&vt.desc) + 1) * vt.desc.align()) as u64 * 2).sum()
}

pub fn run(ctx: &Ctx, rep: &mut Report) {
    let c02 = ctx.prop == "C02";
    if ctx.sub == "sweep" {
        rep.notes.push(format!("sweep_total={}", sweep_total(ctx)));
    }
    let total = if ctx.sub == "sweep" { sweep_total(ctx) } else { u64::MAX };
    // corpus mode: this shard's pre-generated inputs, one per line, consumed lazily
    let mut corpus_lines = match (&ctx.corpus, ctx.only) {
        (Some(p), None) => {
            use std::io::BufRead;
            let f = std::fs::File::open(format!("{}.{}", p, ctx.shard % ctx.nshards)).expect("harness: cannot read corpus");
            Some(std::io::BufReader::new(f).lines())
        }
        _ => None,
    };
    let lean = ctx.lite && ctx.prop == "C01" && (ctx.mode.starts_with("miri") || ctx.mode == "memcheck");
    let (mut lean_gate, mut lean_ok, mut lean_err) = (0u64, 0u64, 0u64);
    ctx.for_cases(rep, |idx, rep| {
        if idx >= total {
            return;
        }
        let case = match corpus_lines.as_mut() {
            Some(lines) => loop {
                match lines.next().and_then(|l| l.ok()).and_then(|l| parse_corpus_line(&l)) {
                    Some((i, c)) if i == idx => break c,
                    Some((i, _)) if i < idx => continue,
                    _ => return,
                }
            },
            None => gen_case(ctx, idx),
        };
        if case.si == usize::MAX {
            return;
        }
        let vt = &ctx.zoo[case.si];
        let d = &vt.desc;
        let n = case.input.bytes.len();
        let mut arena = if lean { Arena::new_lean(n, case.input.off, case.place) } else { Arena::new(n, case.input.off, case.place, mix(idx ^ 0xabc)) };
        arena.fill_from(&case.input.bytes);
        let addr = arena.addr();
        rep.evaluations += 1;
        if lean {
            // interpreter mode: only the code under test runs; the interpreter is the monitor
            let r1 = guarded(|| (vt.validate)(arena.slice()));
            let r2 = guarded(|| (vt.from_bytes)(arena.slice(), &mut |_v| {}));
            let r3 = guarded(|| (vt.from_mut_bytes)(arena.slice_mut(), &mut |_v| {}));
            if n >= vt.min_size && addr % vt.align == 0 {
                lean_gate += 1;
            }
            match &r1 {
                Ok(Ok(())) => lean_ok += 1,
                Ok(Err(_)) => lean_err += 1,
                _ => {}
            }
            for (api, r) in [("validate", &r1), ("from_bytes", &r2), ("from_mut_bytes", &r3)] {
                if let Err(p) = r {
                    rep.violation(
                        format!("{}|{}|panic|{}", ctx.prop, api, panic_site(p)),
                        format!("{} on {} ({} bytes, kind {}) panicked: {}", api, vt.name, n, case.input.kind, p),
                        case_json(ctx, idx).set("shape", J::s(vt.name)).set("panic", J::s(p.clone())),
                    );
                }
            }
            return;
        }
        let cj = || {
            case_json(ctx, idx)
                .set("shape", J::s(vt.name))
                .set("input_kind", J::s(case.input.kind))
                .set("len", J::i(n))
                .set("addr_mod_64", J::i(addr % 64))
                .set("bytes", J::bytes(&case.input.bytes[..n.min(96)]))
        };

        // reference decision (skipped in lite mode for C01)
        let verdict = if c02 || !ctx.lite { Some(decide(d, &case.input.bytes, addr)) } else { None };

        // 1. validate
        let r_val = guarded(|| (vt.validate)(arena.slice()));
        // 2. from_bytes + deep walk
        let mut view_bad: Vec<(String, String)> = Vec::new();
        let expect_val = match &verdict {
            Some(Verdict::MustOk(x)) | Some(Verdict::May(x)) => Some(x.value.clone()),
            _ => None,
        };
        let lite = ctx.lite;
        let r_fb = guarded(|| {
            let s = arena.slice();
            (vt.from_bytes)(s, &mut |view| {
                if c02 {
                    view_bad = check_view(view, addr, n, expect_val.as_ref(), lite);
                }
            })
        });
        // 3. from_mut_bytes
        let r_fmb = guarded(|| (vt.from_mut_bytes)(arena.slice_mut(), &mut |_v| {}));
        // 4. FlatWrap::from_wrapped_bytes (the checked wrapper constructor)
        let mut wrap_read: Option<Value> = None;
        let r_wrap = guarded(|| (vt.wrap_from)(arena.slice(), &mut |v| wrap_read = Some(v.read())));
        let canary = arena.check_canaries();
        let unchanged = arena.slice() == &case.input.bytes[..];
        // the answer is a function of the slice alone: the same slice surrounded by other bytes gives the same answer
        // (an over-read whose result happens to be masked by the usual surroundings shows up here)
        if case.place == Place::Island {
            if let Ok(base) = &r_val {
                let base_s = format!("{:?}", base.as_ref().map_err(|e| (kind_name(&e.kind), e.pos)));
                for fill in [0x00u8, 0xFF] {
                    arena.fill_outside(fill);
                    let r = guarded(|| (vt.validate)(arena.slice()));
                    rep.count("surroundings-varied");
                    if let Ok(r) = &r {
                        let s = format!("{:?}", r.as_ref().map_err(|e| (kind_name(&e.kind), e.pos)));
                        if s != base_s {
                            rep.violation(
                                format!("{}|result-depends-on-memory-outside-the-slice|{}", ctx.prop, kind_path(d)),
                                format!("validate of {} on the same {} bytes answers {} but {} when the bytes around the slice are {:#04x}", vt.name, n, base_s, s, fill),
                                cj(),
                            );
                            break;
                        }
                    }
                }
            }
        }

        let passed_gate = n >= vt.min_size && addr % vt.align == 0;
        for (api, r) in [("validate", &r_val), ("from_bytes", &r_fb), ("from_mut_bytes", &r_fmb), ("FlatWrap::from_wrapped_bytes", &r_wrap)] {
            match r {
                Err(p) if is_harness_panic(p) => rep.harness_error(format!("{} idx={} {}", api, idx, p)),
                Err(p) => {
                    // both properties treat a panic as a violation (C02: neither Ok nor Err)
                    rep.violation(
                        format!("{}|{}|panic|{}", ctx.prop, api, panic_site(p)),
                        format!("{} on {} ({} bytes, kind {}) panicked: {}", api, vt.name, n, case.input.kind, p),
                        cj().set("panic", J::s(p.clone())),
                    );
                }
                Ok(_) => {}
            }
        }
        if !canary.is_empty() || !unchanged {
            rep.violation(
                format!("{}|validation-wrote-memory|{}", ctx.prop, kind_path(d)),
                format!("validation of {} modified memory (canary offsets {:?}, slice unchanged: {})", vt.name, &canary[..canary.len().min(4)], unchanged),
                cj(),
            );
        }
        // agreement between the three entry points
        if let (Ok(a), Ok(w)) = (&r_val, &r_wrap) {
            if a.is_ok() != w.is_ok() {
                rep.violation(
                    format!("{}|wrapper-disagrees-with-validate|{}", ctx.prop, kind_path(d)),
                    format!("FlatWrap::from_wrapped_bytes on {}: {:?}, validate: {:?}", vt.name, w, a),
                    cj(),
                );
            }
            if c02 && w.is_ok() {
                if let (Some(wv), Some(ev)) = (&wrap_read, &expect_val) {
                    if wv != ev {
                        rep.violation(
                            format!("C02|inconsistent-view|{}|wrapper-content-differs-from-reference", kind_path(d)),
                            format!("{}: FlatWrap reads {} but the reference decoding is {}", vt.name, wv.short(), ev.short()),
                            cj(),
                        );
                    }
                }
            }
        }
        if let (Ok(a), Ok(b), Ok(c)) = (&r_val, &r_fb, &r_fmb) {
            if a.is_ok() != b.is_ok() || a.is_ok() != c.is_ok() {
                rep.violation(
                    format!("{}|entry-points-disagree|{}", ctx.prop, kind_path(d)),
                    format!("validate/from_bytes/from_mut_bytes disagree on {}: {:?} {:?} {:?}", vt.name, a, b, c),
                    cj(),
                );
            }
        }
        let outcome = match &r_val {
            Ok(Ok(())) => "ok",
            Ok(Err(_)) => "err",
            Err(_) => "panic",
        };
        rep.count(&format!("outcome:{}", outcome));
        rep.count(&format!("input:{}", case.input.kind));
        if passed_gate {
            rep.count("passed-gate");
            rep.key(mix(hash_str(vt.name) ^ mix(hash_str(case.input.kind)) ^ mix(len_class(d, n)) ^ mix(crate::rng::hash_bytes(&case.input.bytes)).rotate_left(7)));
        }

        if c02 {
            if let (Some(v), Ok(res)) = (&verdict, &r_fb) {
                let (cls, should_ok, should_err) = match v {
                    Verdict::MustOk(_) => ("must-accept", true, false),
                    Verdict::MustErr(e) => (
                        match e.class {
                            ErrClass::Short => "must-reject:short",
                            ErrClass::BadAlign => "must-reject:align",
                            ErrClass::BadTag => "must-reject:tag",
                            ErrClass::BadBool => "must-reject:bool",
                            ErrClass::BadUtf8 => "must-reject:utf8",
                            ErrClass::BadOffset => "must-reject:offset",
                        },
                        false,
                        true,
                    ),
                    Verdict::May(_) => ("may", false, false),
                };
                rep.count(&format!("class:{}", cls));
                if should_ok && res.is_err() {
                    rep.violation(
                        format!("C02|rejected-well-formed|{}|{}", kind_path(d), kind_name(&res.as_ref().err().unwrap().kind)),
                        format!("{}: reference decoder accepts ({} bytes) but from_bytes returned {:?}", vt.name, n, res),
                        cj(),
                    );
                }
                if should_err && res.is_ok() {
                    rep.violation(
                        format!("C02|accepted-malformed|{}|{}", kind_path(d), cls),
                        format!("{}: reference decoder says {} but from_bytes accepted ({} bytes)", vt.name, cls, n),
                        cj(),
                    );
                }
                if res.is_ok() {
                    for (clause, detail) in &view_bad {
                        if should_err && clause == "content-differs-from-reference" {
                            continue;
                        }
                        rep.violation(
                            format!("C02|inconsistent-view|{}|{}", kind_path(d), clause),
                            format!("{} ({} bytes, {}): {} {}", vt.name, n, cls, clause, detail),
                            cj(),
                        );
                    }
                }
            }
        }
        rep.sample(6, || cj().set("outcome", J::s(outcome)));
    });
    if lean {
        rep.add("lean:passed-gate", lean_gate);
        rep.add("lean:outcome:ok", lean_ok);
        rep.add("lean:outcome:err", lean_err);
    }
}
