//! Construction-side engines:
//!   C03  emplace -> read back, validates, byte-exact image
//!   C04  computed layout == compiler layout == reference C layout
//!   C15  emplacement into any buffer: right error or correct success
//!   C17  portable composites: align 1, padding-free, reference serialisation
//!   C20  default_in_place gives the documented default

use crate::arena::{Arena, Place};
use crate::engine::*;
use crate::engines::bytes_in::{check_view, kind_path};
use crate::json::J;
use crate::model::*;
use crate::rng::{hash_str, mix, Rng};
use crate::shape::*;
use flatty::error::ErrorKind;

struct Case {
    si: usize,
    v: Value,
    style: u64,
    n: usize,
    off: usize,
    place: Place,
    garbage: u64,
    api: u8, // 0 new_in_place, 1 FlatWrap over &mut [u8], 2 FlatWrap over AlignedBytes copy
    nclass: &'static str,
    /// the value has more elements than its length type can count: construction must be refused whatever the buffer
    over: bool,
}

fn shapes_for<'a>(ctx: &'a Ctx) -> Vec<usize> {
    let p = ctx.prop.as_str();
    (0..ctx.zoo.len())
        .filter(|&i| {
            let d = &ctx.zoo[i].desc;
            match p {
                "C17" => d.is_portable() || ctx.zoo[i].impls_portable,
                "C20" => d.has_default() && (ctx.zoo[i].default_probe),
                _ => true,
            }
        })
        .collect()
}

fn gen_case(ctx: &Ctx, shapes: &[usize], idx: u64) -> Case {
    let mut rng = Rng::derive(ctx.seed, idx, hash_str(&ctx.prop));
    let si = shapes[rng.below(shapes.len() as u64) as usize];
    let d = &ctx.zoo[si].desc;
    let a = d.align();
    let budget = if ctx.tier == Tier::Quick { 48 } else { 120 };
    let v = if ctx.prop == "C20" { default_value(d) } else { gen_value(d, &mut rng, budget) };
    let any_buffer = ctx.prop == "C15" || ctx.prop == "C14";
    let mut over = false;
    let mut v = v;
    if (any_buffer && rng.chance(1, 10)) || (ctx.prop == "C03" && rng.chance(1, 16)) {
        if let Some(v2) = make_overlong(d, &v, &mut rng) {
            v = v2;
            over = true;
        }
    }
    let need = if over { overlong_room(d, &v) } else { extent_of(d, &v) };
    let style = rng.next();
    let (n, nclass) = if over {
        (need + rng.range(0, a + 2), "room-for-unrepresentable-content")
    } else if any_buffer {
        match rng.below(10) {
            0 => (rng.range(0, d.min_size()), "below-min"),
            1 => (d.min_size().saturating_sub(1), "min-1"),
            2 => (d.min_size(), "min"),
            3 => (need.saturating_sub(1), "need-1"),
            4 => (need, "need"),
            5 => (need + 1, "need+1"),
            6 => (need.saturating_sub(a), "need-align"),
            7 => (rng.range(0, need + a + 2), "any"),
            8 => (need.saturating_sub(rng.range(0, a.min(need))), "need-k"),
            _ => (need + rng.range(0, a + 2), "above"),
        }
    } else {
        match rng.below(5) {
            0 => (need, "need"),
            1 => (need + rng.range(1, a), "need+k"),
            2 => (need + a, "need+align"),
            3 => (need + rng.range(0, 2 * a), "need+2a"),
            _ => (need + rng.range(0, 200), "large"),
        }
    };
    let off = if any_buffer {
        crate::inputs::pick_offset(a, &mut rng)
    } else if ctx.prop == "C17" {
        rng.below(9) as usize
    } else {
        a * rng.below((64 / a) as u64) as usize
    };
    Case {
        si,
        v,
        style,
        n,
        off,
        place: if rng.chance(1, 2) { Place::Tail } else { Place::Island },
        garbage: rng.next(),
        api: if any_buffer || ctx.prop == "C20" { rng.below(3).min(1) as u8 } else { 0 },
        nclass,
        over,
    }
}

/// Compare the non-padding bytes of `real` with the canonical reference image of `v`.
fn byte_exact(d: &Desc, v: &Value, real: &[u8], rng: &mut Rng) -> Option<String> {
    let n = real.len();
    let img = match encode(d, v, n, &EncOpts::default(), rng) {
        Ok(i) => i,
        Err(_) => return Some("reference encoder cannot fit the value although the library accepted it".into()),
    };
    let dec = match decode(d, &img, true) {
        Ok(x) => x,
        Err(e) => panic!("harness: reference image does not decode: {:?}", e),
    };
    for r in &dec.parsed.recs {
        if real[r.off..r.off + r.len] != img[r.off..r.off + r.len] {
            return Some(format!(
                "bytes [{}..{}) ({:?} at path {:?}) are {:02x?}, reference encoding has {:02x?}",
                r.off,
                r.off + r.len,
                r.kind,
                r.path,
                &real[r.off..r.off + r.len],
                &img[r.off..r.off + r.len]
            ));
        }
    }
    None
}

fn content_end_of(d: &Desc, v: &Value, rng: &mut Rng) -> usize {
    let need = extent_of(d, v);
    let img = encode(d, v, need, &EncOpts::default(), rng).expect("harness: extent must fit");
    decode(d, &img, true).expect("harness: canonical image must decode").content_end
}

pub fn run(ctx: &Ctx, rep: &mut Report) {
    if ctx.prop == "C04" {
        return run_c04(ctx, rep);
    }
    let shapes = shapes_for(ctx);
    if shapes.is_empty() {
        rep.harness_error("no applicable shapes".into());
        return;
    }
    let lean = ctx.lite && ctx.mode.starts_with("miri");
    if ctx.prop == "C17" {
        // what the Portable probe saw: generated definitions that implement Portable, and generated definitions
        // (generic ones declared portable, instantiated with a native argument) that rightly do not
        for vt in ctx.zoo.iter().filter(|vt| matches!(vt.desc, Desc::Struct { .. } | Desc::Enum { .. })) {
            rep.count(if vt.impls_portable { "c17:definitions-implementing-Portable" } else { "c17:definitions-not-implementing-Portable" });
        }
    }
    if ctx.prop == "C17" && ctx.shard == 0 {
        // concrete library types: whatever implements `Portable` must have alignment 1 (native integers, native length
        // types and everything that contains them are not platform independent and must not carry the marker)
        for (name, impls, align) in library_portable_probes() {
            rep.count("c17:library-types-probed");
            if impls {
                rep.count("c17:library-types-implementing-Portable");
            }
            if impls && align != 1 {
                rep.violation(
                    format!("C17|Portable-impl-on-non-portable-layout|{}", name.replace(' ', "")),
                    format!("{} implements Portable but has alignment {} (native integers / length types are not platform independent)", name, align),
                    J::obj().set("prop", J::s("C17")).set("type", J::s(name)),
                );
            }
        }
    }
    ctx.for_cases(rep, |idx, rep| {
        let case = gen_case(ctx, &shapes, idx);
        let vt = &ctx.zoo[case.si];
        let d = &vt.desc;
        let a = d.align();
        let n = case.n;
        let mut arena = if lean { Arena::new_lean(n, case.off, case.place) } else { Arena::new(n, case.off, case.place, case.garbage) };
        if !lean {
            let mut g = vec![0u8; n];
            Rng::new(case.garbage ^ 0x77).fill(&mut g);
            arena.fill_from(&g);
        }
        let addr = arena.addr();
        rep.evaluations += 1;
        let cj = || {
            case_json(ctx, idx)
                .set("shape", J::s(vt.name))
                .set("value", J::s(case.v.short()))
                .set("style", J::i(case.style % 1000))
                .set("len", J::i(n))
                .set("len_class", J::s(case.nclass))
                .set("addr_mod_64", J::i(addr % 64))
                .set("api", J::i(case.api))
        };
        let need = if case.over { n } else { extent_of(d, &case.v) };
        let mut rr = Rng::new(case.garbage ^ 0x99);

        let before: Vec<u8> = if ctx.prop == "C14" { arena.slice().to_vec() } else { Vec::new() };
        // run
        let mut view_bad: Vec<(String, String)> = Vec::new();
        let mut got_size = 0usize;
        let mut got_val = None;
        let mut image: Vec<u8> = Vec::new();
        let is_default = ctx.prop == "C20";
        let res = guarded(|| {
            let mut on_view = |view: &mut dyn ShapeDynMut| {
                let vd = view.as_dyn();
                got_size = vd.size();
                if !lean {
                    view_bad = check_view(vd, addr, n, None, false);
                }
                got_val = Some(vd.read());
                image = vd.bytes().to_vec();
            };
            match (is_default, case.api) {
                (true, 0) => (vt.default_in_place)(arena.slice_mut(), &mut on_view),
                (true, _) => (vt.wrap_default)(arena.slice_mut(), 0, &mut on_view),
                (false, 0) => Some((vt.new_in_place)(arena.slice_mut(), &case.v, case.style, &mut on_view)),
                (false, k) => Some((vt.wrap_new)(arena.slice_mut(), &case.v, case.style, k - 1, &mut on_view)),
            }
        });
        let canary = if lean { Vec::new() } else { arena.check_canaries() };
        if !canary.is_empty() {
            rep.violation(
                format!("{}|wrote-outside-slice|{}", ctx.prop, kind_path(d)),
                format!("emplacing {} into {} bytes changed bytes outside the slice at offsets {:?}", vt.name, n, &canary[..canary.len().min(6)]),
                cj(),
            );
        }
        let res = match res {
            Err(p) if is_harness_panic(&p) => {
                rep.harness_error(format!("idx={} {}", idx, p));
                return;
            }
            Err(p) => {
                rep.violation(
                    format!("{}|panic|{}", ctx.prop, panic_site(&p)),
                    format!("emplacing {} (value {}) into {} bytes panicked: {}", vt.name, case.v.short(), n, p),
                    cj().set("panic", J::s(p.clone())),
                );
                rep.count("outcome:panic");
                return;
            }
            Ok(None) => {
                rep.harness_error(format!("{} has no default emplacer but is listed as defaultable", vt.name));
                return;
            }
            Ok(Some(r)) => r,
        };
        let aligned = addr % a == 0;
        if case.over && ctx.prop != "C14" {
            // more elements than the length type can count: the content cannot be held by any buffer
            rep.count("zone:unrepresentable-content");
            rep.key(mix(hash_str(vt.name) ^ mix(hash_str("over")) ^ mix(case.style % 6) ^ mix(aligned as u64)));
            match &res {
                Ok(()) => rep.violation(
                    format!("{}|accepted-unrepresentable-content|{}", ctx.prop, kind_path(d)),
                    format!("{}: content that the length or offset type cannot represent (more elements than L::MAX, or an item whose sealed offset is not below L::MAX) was accepted (read back: {})", vt.name, got_val.as_ref().map(|v| v.short()).unwrap_or_default()),
                    cj(),
                ),
                Err(_) if ctx.prop != "C15" => rep.count("outcome:unrepresentable:refused"),
                Err(e) if aligned && e.kind != ErrorKind::InsufficientSize => rep.violation(
                    format!("{}|unrepresentable-content-wrong-error|{}|{}", ctx.prop, kind_path(d), kind_name(&e.kind)),
                    format!("{}: content that does not fit the length type answered with {:?}", vt.name, e),
                    cj(),
                ),
                Err(e) if e.kind != ErrorKind::InsufficientSize && e.kind != ErrorKind::BadAlign => rep.violation(
                    format!("{}|bad-buffer-wrong-error|{}|{}", ctx.prop, kind_path(d), kind_name(&e.kind)),
                    format!("{}: misaligned buffer and unrepresentable content answered with {:?}", vt.name, e),
                    cj(),
                ),
                Err(e) => rep.count(&format!("outcome:unrepresentable:{}", kind_name(&e.kind))),
            }
            return;
        }
        let fits_usable = floor_to(n, a) >= need;
        let content_end = if lean || case.over { need } else { content_end_of(d, &case.v, &mut rr) };
        let fits_at_all = n >= content_end.max(min_content(d));
        let zone = if !aligned && !fits_usable {
            "misaligned+small"
        } else if !aligned {
            "misaligned"
        } else if fits_usable {
            "fits"
        } else if fits_at_all {
            "may"
        } else {
            "too-small"
        };
        rep.count(&format!("zone:{}", zone));
        match &res {
            Ok(()) => rep.count("outcome:ok"),
            Err(e) => rep.count(&format!("outcome:{}", kind_name(&e.kind))),
        }
        rep.key(mix(hash_str(vt.name) ^ mix(hash_str(zone)) ^ mix(hash_str(case.nclass)) ^ mix(hash_str(&format!("{:?}", case.v))).rotate_left(9) ^ mix(case.style % 6)));

        if ctx.prop == "C14" {
            // construction (also a refused one) changes only bytes that can belong to the value: nothing at all in a
            // misaligned slice, and never the bytes behind the last whole multiple of the alignment (no value of this
            // type mapped on this slice covers them).  Bytes outside the slice are watched by the canaries above.
            let after = arena.slice();
            let usable = floor_to(n, a);
            if !aligned {
                if let Some(i) = (0..n).find(|&i| after[i] != before[i]) {
                    rep.violation(format!("C14|construct|misaligned-slice-modified|{}", kind_path(d)), format!("{}: emplacing into a misaligned slice ({:?}) changed byte {}", vt.name, res, i), cj());
                }
                rep.count("c14:construct-misaligned-checked");
            } else {
                if let Some(i) = (usable..n).find(|&i| after[i] != before[i]) {
                    rep.violation(
                        format!("C14|construct|bytes-behind-the-value-modified|{}", kind_path(d)),
                        format!("{}: emplacing {} into {} bytes ({:?}) changed byte {} although a value of this type covers at most {} of them", vt.name, case.v.short(), n, res.as_ref().map_err(|e| kind_name(&e.kind)), i, usable),
                        cj(),
                    );
                }
                if usable < n {
                    rep.count("c14:construct-tail-bytes-checked");
                }
                if res.is_err() {
                    rep.count("c14:construct-refused-checked");
                }
            }
            return;
        }
        // C15: the right error or success
        let c15 = ctx.prop == "C15";
        match (&res, zone) {
            (Ok(()), "misaligned") | (Ok(()), "misaligned+small") => rep.violation(
                format!("{}|accepted-misaligned-buffer|{}", ctx.prop, kind_path(d)),
                format!("{}: buffer at address%{}={} accepted", vt.name, a, addr % a),
                cj(),
            ),
            (Err(e), "misaligned") if e.kind != ErrorKind::BadAlign => rep.violation(
                format!("{}|misaligned-buffer-wrong-error|{}|{}", ctx.prop, kind_path(d), kind_name(&e.kind)),
                format!("{}: misaligned buffer answered with {:?}", vt.name, e),
                cj(),
            ),
            (Err(e), "misaligned+small") if e.kind != ErrorKind::BadAlign && e.kind != ErrorKind::InsufficientSize => rep.violation(
                format!("{}|bad-buffer-wrong-error|{}|{}", ctx.prop, kind_path(d), kind_name(&e.kind)),
                format!("{}: misaligned and too small buffer answered with {:?}", vt.name, e),
                cj(),
            ),
            (Ok(()), "too-small") => rep.violation(
                format!("{}|accepted-too-small-buffer|{}", ctx.prop, kind_path(d)),
                format!("{}: value needs {} content bytes, buffer of {} accepted", vt.name, content_end, n),
                cj(),
            ),
            (Err(e), "too-small") | (Err(e), "may") if e.kind != ErrorKind::InsufficientSize => rep.violation(
                format!("{}|too-small-wrong-error|{}|{}", ctx.prop, kind_path(d), kind_name(&e.kind)),
                format!("{}: too small buffer ({} of {} needed) answered with {:?}", vt.name, n, need, e),
                cj(),
            ),
            (Err(e), "fits") => rep.violation(
                format!("{}|rejected-sufficient-buffer|{}|{}", ctx.prop, kind_path(d), kind_name(&e.kind)),
                format!("{}: aligned buffer of {} bytes (needed {}) refused with {:?} (value {})", vt.name, n, need, e, case.v.short()),
                cj(),
            ),
            _ => {}
        }
        let _ = c15;
        // success must satisfy the read-back clauses (C03), in every zone where it succeeded legitimately
        if res.is_ok() && (zone == "fits" || zone == "may") {
            for (clause, detail) in &view_bad {
                rep.violation(
                    format!("{}|inconsistent-view|{}|{}", ctx.prop, kind_path(d), clause),
                    format!("{} emplaced into {} bytes: {} {}", vt.name, n, clause, detail),
                    cj(),
                );
            }
            if let Some(gv) = &got_val {
                if gv != &case.v {
                    rep.violation(
                        format!("{}|read-back-differs|{}", ctx.prop, kind_path(d)),
                        format!("{}: emplaced {} read back {}", vt.name, case.v.short(), gv.short()),
                        cj(),
                    );
                }
            }
            if !lean {
                let real = arena.slice();
                if let Some(diff) = byte_exact(d, &case.v, real, &mut rr) {
                    rep.violation(format!("{}|image-not-byte-exact|{}", ctx.prop, kind_path(d)), format!("{}: {}", vt.name, diff), cj());
                }
                if got_size != need {
                    rep.violation(
                        format!("{}|size-after-emplace|{}", ctx.prop, kind_path(d)),
                        format!("{}: size() = {} but the reference extent is {} (value {})", vt.name, got_size, need, case.v.short()),
                        cj(),
                    );
                }
            }
            if ctx.prop == "C17" && !d.is_portable() {
                // implements Portable although a field is not portable (a generic definition declared portable whose
                // impl is not conditional on its parameters): native alignment, padding and byte order behind a Portable impl
                rep.violation(
                    format!("C17|Portable-impl-on-non-portable-layout|{}", kind_path(d)),
                    format!("{} implements Portable but contains non-portable fields; its alignment is {}", vt.name, a),
                    cj(),
                );
            } else if ctx.prop == "C17" && !lean {
                let mut ser = Vec::new();
                serialize_portable(d, &case.v, &mut ser);
                let m = got_size.min(image.len());
                if a != 1 {
                    rep.violation(
                        format!("C17|align-not-1|{}", portable_sig(d)),
                        format!("{} is declared portable but has alignment {}", vt.name, a),
                        cj(),
                    );
                } else if m != ser.len() || !image[..m].iter().zip(ser.iter()).all(|(x, y)| y.map_or(true, |y| y == *x)) {
                    rep.violation(
                        format!("C17|image-differs-from-serialisation|{}", kind_path(d)),
                        format!("{}: as_bytes()[..size()] = {:02x?} but the reference serialisation is {:02x?}", vt.name, &image[..m.min(64)], ser.iter().take(64).map(|x| x.map_or("??".to_string(), |b| format!("{:02x}", b))).collect::<Vec<_>>()),
                        cj(),
                    );
                }
                rep.count("c17:compared");
            }
            if ctx.prop == "C20" {
                // sized types: the same value as Default::default()
                if let Some(dv) = (vt.rust_default)() {
                    if got_val.as_ref() != Some(&dv) {
                        rep.violation(
                            format!("C20|differs-from-Default::default|{}", kind_path(d)),
                            format!("{}: default_in_place gives {} but Default::default() is {}", vt.name, got_val.as_ref().map(|v| v.short()).unwrap_or_default(), dv.short()),
                            cj(),
                        );
                    }
                    rep.count("c20:compared-with-Default::default");
                }
            }
            if ctx.prop == "C20" && !lean {
                // independence from prior contents: run again on different garbage and compare the non-padding bytes
                let mut arena2 = Arena::new(n, case.off, case.place, case.garbage ^ 0x1234);
                let mut g = vec![0u8; n];
                Rng::new(case.garbage ^ 0x4321).fill(&mut g);
                arena2.fill_from(&g);
                let r2 = guarded(|| (vt.default_in_place)(arena2.slice_mut(), &mut |_v| {}));
                if !matches!(r2, Ok(Some(Ok(())))) {
                    rep.violation(
                        format!("C20|result-depends-on-prior-contents|{}", kind_path(d)),
                        format!("{}: default_in_place succeeded on one garbage fill and gave {:?} on another", vt.name, r2),
                        cj(),
                    );
                } else if let Ok(dec) = decode(d, arena.slice(), true) {
                    for r in &dec.parsed.recs {
                        if arena.slice()[r.off..r.off + r.len] != arena2.slice()[r.off..r.off + r.len] {
                            rep.violation(
                                format!("C20|bytes-depend-on-prior-contents|{}", kind_path(d)),
                                format!("{}: bytes [{}..{}) differ between two garbage fills", vt.name, r.off, r.off + r.len),
                                cj(),
                            );
                            break;
                        }
                    }
                }
                rep.count("c20:compared");
            }
        }
        rep.sample(6, || cj().set("zone", J::s(zone)).set("result", J::s(format!("{:?}", res))).set("image_len", J::i(image.len())));
    });
}

/// smallest number of bytes any value of the shape needs for its headers
fn min_content(d: &Desc) -> usize {
    match d {
        Desc::Vec { len, .. } | Desc::Str { len } | Desc::Flex { len, .. } => len.size,
        _ => 0,
    }
}

fn portable_sig(d: &Desc) -> String {
    /// first enum with a tag wider than one byte anywhere in the shape: the root cause of a
    /// "portable" type whose alignment is not 1
    fn wide(d: &Desc) -> Option<(bool, usize)> {
        match d {
            Desc::Enum { tag, sized, variants, .. } => {
                if *tag > 1 {
                    return Some((*sized, *tag));
                }
                variants.iter().flat_map(|v| v.iter()).find_map(wide)
            }
            Desc::Struct { fields, .. } => fields.iter().find_map(wide),
            Desc::Array(e, _) | Desc::Vec { elem: e, .. } | Desc::Flex { item: e, .. } => wide(e),
            _ => None,
        }
    }
    match wide(d) {
        Some((sized, tag)) => format!("{}-tag-u{}", if sized { "SizedEnum" } else { "UnsizedEnum" }, tag * 8),
        None => kind_path(d),
    }
}

// ---------------------------------------------------------------------------
// C04

fn run_c04(ctx: &Ctx, rep: &mut Report) {
    // enumeration: (shape, n) for n in min..min+4*align+2*elem; idx is the position in that list
    let mut table: Vec<(usize, usize)> = Vec::new();
    for (si, vt) in ctx.zoo.iter().enumerate() {
        let d = &vt.desc;
        if d.is_sized() {
            table.push((si, d.size()));
        } else {
            let elem = match d {
                Desc::Vec { elem, .. } => elem.size(),
                _ => 4,
            };
            let m = d.min_size();
            for n in m..=(m + 4 * d.align() + 2 * elem) {
                table.push((si, n));
            }
        }
    }
    rep.notes.push(format!("c04_table={}", table.len()));
    ctx.for_cases(rep, |idx, rep| {
        if idx as usize >= table.len() {
            return;
        }
        let (si, n) = table[idx as usize];
        let vt = &ctx.zoo[si];
        let d = &vt.desc;
        let a = d.align();
        rep.evaluations += 1;
        let cj = || case_json(ctx, idx).set("shape", J::s(vt.name)).set("len", J::i(n));
        let sig = |what: &str| format!("C04|{}|{}", what, kind_path(d));
        // constants (checked once per (shape, n); cheap)
        if vt.align != a {
            rep.violation(sig("ALIGN"), format!("{}: ALIGN = {} but the C layout rule gives {}", vt.name, vt.align, a), cj());
        }
        if vt.min_size != d.min_size() {
            rep.violation(sig("MIN_SIZE"), format!("{}: MIN_SIZE = {} but the reference minimal size is {}", vt.name, vt.min_size, d.min_size()), cj());
        }
        if let Some(s) = vt.static_size {
            if s != d.size() {
                rep.violation(sig("SIZE"), format!("{}: SIZE = {} but the C layout rule gives {}", vt.name, s, d.size()), cj());
            }
        }
        for (name, val) in &vt.consts {
            let expect = match (*name, d) {
                ("LAST_FIELD_OFFSET", Desc::Struct { fields, .. }) => Some(*c_struct(fields).0.last().unwrap()),
                ("DATA_OFFSET", Desc::Enum { sized: true, .. }) if !d.is_c_like() => Some(d.enum_data_off()),
                ("DATA_OFFSET", Desc::Enum { sized: false, .. }) => Some(d.unsized_data_off()),
                (nm, Desc::Enum { sized: false, .. }) if nm.starts_with("DATA_MIN_SIZES[") => {
                    let i: usize = nm["DATA_MIN_SIZES[".len()..nm.len() - 1].parse().unwrap();
                    Some(d.variant_min(i))
                }
                _ => None,
            };
            if let Some(e) = expect {
                rep.count("consts-checked");
                if e != *val {
                    rep.violation(sig(name.split('[').next().unwrap()), format!("{}: {} = {} but the reference layout gives {}", vt.name, name, val, e), cj());
                }
            }
        }
        // mapped values: a reference image of a generated value, and the default value
        let mut rng = Rng::derive(ctx.seed, idx, 0xC04);
        for attempt in 0..3 {
            let v = if attempt == 0 { crate::inputs::smallest_value(d) } else { gen_value(d, &mut rng, n.saturating_sub(d.min_size()).max(4)) };
            let img = match encode(d, &v, n, &EncOpts::default(), &mut rng) {
                Ok(i) => i,
                Err(_) => continue,
            };
            let dec = decode(d, &img, true).expect("harness: reference image must decode");
            let mut arena = Arena::new(n, a * rng.below((64 / a) as u64) as usize, if attempt % 2 == 0 { Place::Tail } else { Place::Island }, idx);
            arena.fill_from(&img);
            let addr = arena.addr();
            let mut obs: Option<(usize, usize, usize, usize, Vec<AddrRec>)> = None;
            let r = guarded(|| {
                (vt.from_bytes)(arena.slice(), &mut |view| {
                    let mut recs = Vec::new();
                    collect_addrs(view, &mut Vec::new(), &mut recs);
                    obs = Some((view.size_of_val(), view.align_of_val(), view.bytes().len(), view.bytes().as_ptr() as usize, recs));
                })
            });
            match r {
                Err(p) => {
                    rep.violation(format!("C04|panic|{}", panic_site(&p)), format!("{}: mapping a reference image of {} bytes panicked: {}", vt.name, n, p), cj());
                    continue;
                }
                Ok(Err(e)) => {
                    rep.violation(sig("reference-image-rejected"), format!("{}: reference image ({} bytes, value {}) rejected: {:?}", vt.name, n, v.short(), e), cj());
                    continue;
                }
                Ok(Ok(())) => {}
            }
            let (sov, aov, bl, bp, recs) = obs.unwrap();
            rep.count("mapped");
            rep.key(mix(hash_str(vt.name) ^ mix(n as u64) ^ mix(v.hash64())));
            if aov != a {
                rep.violation(sig("align_of_val"), format!("{}: align_of_val = {} but reference alignment is {}", vt.name, aov, a), cj());
            }
            let evs = view_size(d, n);
            if sov > n {
                rep.violation(sig("size_of_val-exceeds-slice"), format!("{}: size_of_val = {} on a slice of {} bytes", vt.name, sov, n), cj());
            } else if sov != evs {
                rep.violation(sig("size_of_val"), format!("{}: size_of_val = {} on {} bytes, reference says {}", vt.name, sov, n, evs), cj());
            }
            if bp != addr || bl != sov {
                rep.violation(
                    sig("as_bytes-extent"),
                    format!("{}: as_bytes() = [{}, +{}) but the value is [0, +{})", vt.name, bp as isize - addr as isize, bl, sov),
                    cj(),
                );
            }
            // field addresses against the reference positions
            for r in &recs {
                if let Some(node) = dec.parsed.nodes.iter().find(|x| x.path == r.path) {
                    rep.count("field-addresses-compared");
                    if r.addr.wrapping_sub(addr) != node.off {
                        rep.violation(
                            sig(&format!("field-offset:{}", r.kind)),
                            format!("{}: sub-object at path {:?} ({}) is at offset {} but the C layout puts it at {}", vt.name, r.path, r.kind, r.addr.wrapping_sub(addr), node.off),
                            cj(),
                        );
                        break;
                    }
                }
            }
            rep.sample(5, || cj().set("size_of_val", J::i(sov)).set("value", J::s(v.short())).set("fields", J::i(recs.len())));
        }
    });
}
