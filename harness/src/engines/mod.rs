pub mod bytes_in;

use crate::engine::{Ctx, Report};

pub fn dispatch(ctx: &Ctx, rep: &mut Report) {
    match ctx.prop.as_str() {
        "C01" | "C02" => bytes_in::run(ctx, rep),
        other => rep.harness_error(format!("no engine for {}", other)),
    }
}
