pub mod bytes_in;
pub mod emplace;
pub mod framing;
pub mod hist;
pub mod io;
pub mod scalars;

use crate::engine::{Ctx, Report};

pub fn dispatch(ctx: &Ctx, rep: &mut Report) {
    if ctx.engine.as_deref() == Some("hist") {
        return hist::run(ctx, rep);
    }
    if ctx.engine.as_deref() == Some("emplace") {
        return emplace::run(ctx, rep);
    }
    match ctx.prop.as_str() {
        "C01" | "C02" => bytes_in::run(ctx, rep),
        "C16" => scalars::run(ctx, rep),
        "C06" | "C19" => framing::run(ctx, rep),
        "C07" | "C08" | "C09" | "C10" => io::run(ctx, rep),
        "C05" | "C11" | "C12" | "C13" | "C14" | "C18" => hist::run(ctx, rep),
        "C03" | "C04" | "C15" | "C17" | "C20" => emplace::run(ctx, rep),
        other => rep.harness_error(format!("no engine for {}", other)),
    }
}

pub fn dump(ctx: &Ctx, n: u64, path: &str) {
    match ctx.prop.as_str() {
        "C01" | "C02" => bytes_in::dump_corpus(ctx, n, path),
        _ => {}
    }
}
