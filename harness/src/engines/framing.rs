//! C06 (framing contract: prefixes are "incomplete", extensions are the same)
//! and C19 (content errors are reported at the byte that is wrong).

use crate::arena::{Arena, Place};
use crate::engine::*;
use crate::engines::bytes_in::kind_path;
use crate::inputs::valid_image;
use crate::json::J;
use crate::model::*;
use crate::rng::{hash_str, mix, Rng};
use crate::shape::*;
use flatty::error::ErrorKind;

/// kinds of the nodes from the root to the node at `path` in value `v`
pub fn path_kinds(d: &Desc, v: &Value, path: &[u32]) -> String {
    let mut out = d.kind().to_string();
    let (mut d, mut v) = (d.clone(), v.clone());
    for p in path {
        let i = *p as usize;
        let (nd, nv) = match (&d, &v) {
            (Desc::Array(e, _), Value::Arr(f)) => ((**e).clone(), f.get(i).cloned()),
            (Desc::Vec { elem, .. }, Value::Seq(f)) => ((**elem).clone(), f.get(i).cloned()),
            (Desc::Flex { item, .. }, Value::Seq(f)) => ((**item).clone(), f.get(i).cloned()),
            (Desc::Struct { fields, .. }, Value::Struct(f)) => (fields[i].clone(), f.get(i).cloned()),
            (Desc::Enum { variants, .. }, Value::Var(k, f)) => (variants[*k][i].clone(), f.get(i).cloned()),
            _ => return out,
        };
        out.push('>');
        out.push_str(nd.kind());
        d = nd;
        v = match nv {
            Some(x) => x,
            None => return out,
        };
    }
    out
}

pub fn run(ctx: &Ctx, rep: &mut Report) {
    if ctx.prop == "C19" {
        return run_c19(ctx, rep);
    }
    let lean = ctx.lite && ctx.mode.starts_with("miri");
    ctx.for_cases(rep, |idx, rep| {
        let mut rng = Rng::derive(ctx.seed, idx, 0xC06);
        let si = rng.below(ctx.zoo.len() as u64) as usize;
        let vt = &ctx.zoo[si];
        let d = &vt.desc;
        let a = d.align();
        let budget = if lean { 16 } else if ctx.tier == Tier::Quick { 40 } else { 100 };
        let (v, img, ext) = valid_image(d, &mut rng, budget);
        let m = &img[..ext.min(img.len())];
        let dec = match decode(d, m, true) {
            Ok(x) => x,
            Err(_) => {
                // the chosen encoding form does not fit in exactly `ext` bytes (cannot happen); skip
                rep.count("skipped");
                return;
            }
        };
        let content_end = dec.content_end;
        let cj = |k: usize, what: &str| {
            case_json(ctx, idx)
                .set("shape", J::s(vt.name))
                .set("value", J::s(v.short()))
                .set("message", J::bytes(&m[..m.len().min(96)]))
                .set("cut_or_suffix", J::s(format!("{}:{}", what, k)))
        };
        let base_off = a * rng.below((64 / a) as u64) as usize;
        rep.count("messages");
        rep.key(mix(hash_str(vt.name) ^ mix(v.hash64())));

        // the message itself
        let check_ok = |buf: &[u8], rep: &mut Report, what: &str, k: usize, must_ok: bool| {
            let mut arena = if lean { Arena::new_lean(buf.len(), base_off, Place::Tail) } else { Arena::new(buf.len(), base_off, if k % 2 == 0 { Place::Tail } else { Place::Island }, idx) };
            arena.fill_from(buf);
            if !lean && what == "prefix" && k % 2 == 1 && k < m.len() {
                // what lies behind a prefix must not matter: zeros (a fresh receive buffer), the rest of the very
                // message (a slice of a longer recording), or arbitrary bytes (the default canaries)
                match (k / 2) % 3 {
                    0 => arena.fill_outside(0),
                    1 => arena.write_after(&m[k..]),
                    _ => {}
                }
                rep.count("prefix-with-chosen-surroundings");
            }
            let mut got: Option<(Value, usize)> = None;
            let r = guarded(|| (vt.from_bytes)(arena.slice(), &mut |view| got = Some((view.read(), view.size()))));
            rep.evaluations += 1;
            match r {
                Err(p) => {
                    if is_harness_panic(&p) {
                        rep.harness_error(p);
                    } else {
                        rep.violation(format!("C06|panic|{}", panic_site(&p)), format!("{}: validating {} {} panicked: {}", vt.name, what, k, p), cj(k, what));
                    }
                }
                Ok(Ok(())) => {
                    let (gv, gs) = got.unwrap();
                    rep.count(&format!("{}:ok", what));
                    if gv != v {
                        rep.violation(
                            format!("C06|{}-different-message|{}", what, kind_path(d)),
                            format!("{}: {} {} of the message for {} was accepted as {}", vt.name, what, k, v.short(), gv.short()),
                            cj(k, what),
                        );
                    } else if what == "prefix" && k < content_end {
                        rep.violation(
                            format!("C06|prefix-accepted-with-content-missing|{}", kind_path(d)),
                            format!("{}: prefix of {} bytes accepted although content ends at {}", vt.name, k, content_end),
                            cj(k, what),
                        );
                    } else if what != "prefix" && gs != ext {
                        rep.violation(
                            format!("C06|extension-changes-size|{}", kind_path(d)),
                            format!("{}: message of size {} followed by {} reports size() = {}", vt.name, ext, what, gs),
                            cj(k, what),
                        );
                    }
                }
                Ok(Err(e)) => {
                    rep.count(&format!("{}:err", what));
                    if must_ok {
                        rep.violation(
                            format!("C06|{}-rejected|{}|{}", if what == "prefix" { "whole-message" } else { what }, kind_path(d), kind_name(&e.kind)),
                            format!("{}: message ({} bytes) {} {} rejected with {:?}", vt.name, ext, what, k, e),
                            cj(k, what),
                        );
                    } else if e.kind != ErrorKind::InsufficientSize {
                        rep.violation(
                            format!("C06|prefix-not-insufficient-size|{}|{}", kind_path(d), kind_name(&e.kind)),
                            format!("{}: prefix of {} bytes (message {} bytes) rejected with {:?} instead of InsufficientSize", vt.name, k, ext, e),
                            cj(k, what),
                        );
                    }
                }
            }
        };
        // every cut (in interpreter mode: a sample of cuts)
        let step = if lean { (m.len() / 6).max(1) } else { 1 };
        let mut k = 0;
        while k < m.len() {
            check_ok(&m[..k], rep, "prefix", k, false);
            k += step;
        }
        check_ok(m, rep, "prefix", m.len(), true);
        // suffixes
        let (_, other, oext) = valid_image(d, &mut rng, budget);
        let mut sufs: Vec<(&str, Vec<u8>)> = vec![
            ("suffix-1-byte", vec![rng.next() as u8]),
            ("suffix-message", other[..oext.min(other.len())].to_vec()),
            ("suffix-truncated-message", other[..(oext.min(other.len())) / 2].to_vec()),
            ("suffix-ff", vec![0xff; rng.range(1, 2 * a + 8)]),
            ("suffix-zero", vec![0; rng.range(1, 2 * a + 8)]),
        ];
        let mut g = vec![0u8; rng.range(1, 40)];
        rng.fill(&mut g);
        sufs.push(("suffix-garbage", g));
        if lean {
            sufs.truncate(2);
        }
        for (name, s) in sufs {
            let mut buf = m.to_vec();
            buf.extend_from_slice(&s);
            check_ok(&buf, rep, name, s.len(), true);
        }
        rep.sample(5, || cj(0, "all-cuts").set("extent", J::i(ext)).set("content_end", J::i(content_end)));
    });
}

fn run_c19(ctx: &Ctx, rep: &mut Report) {
    let shapes: Vec<usize> = (0..ctx.zoo.len()).filter(|&i| ctx.zoo[i].desc.has_constrained()).collect();
    ctx.for_cases(rep, |idx, rep| {
        let mut rng = Rng::derive(ctx.seed, idx, 0xC19);
        let si = shapes[rng.below(shapes.len() as u64) as usize];
        let vt = &ctx.zoo[si];
        let d = &vt.desc;
        let a = d.align();
        let budget = if ctx.tier == Tier::Quick { 48 } else { 120 };
        let (v, mut img, _ext) = valid_image(d, &mut rng, budget);
        let dec = match decode(d, &img, true) {
            Ok(x) => x,
            Err(_) => return,
        };
        let cands: Vec<&Rec> = dec.parsed.recs.iter().filter(|r| matches!(r.kind, RecKind::Bool | RecKind::Tag | RecKind::StrData)).collect();
        if cands.is_empty() {
            rep.count("no-constrained-byte-in-value");
            return;
        }
        let r = (*rng.pick(&cands)).clone();
        let before = img.clone();
        let what = match r.kind {
            RecKind::Bool => {
                img[r.off] = 2 + rng.below(254) as u8;
                "bool"
            }
            RecKind::Tag => {
                // push the tag value out of range, touching one byte when possible
                let cur = read_uint(&img[r.off..r.off + r.len], Endian::Native);
                let lmax: u128 = (1u128 << (8 * r.len)) - 1;
                let x = match rng.below(3) {
                    0 => lmax,
                    1 => (cur + 1 + rng.below(200) as u128).min(lmax),
                    _ => cur | (0x80u128 << (8 * rng.below(r.len as u64))),
                };
                write_uint(&mut img[r.off..r.off + r.len], Endian::Native, x);
                "tag"
            }
            _ => {
                let i = r.off + rng.below(r.len as u64) as usize;
                img[i] = *rng.pick(&[0xffu8, 0x80, 0xc0, 0xf8, 0xbf, 0xfe]);
                "utf8"
            }
        };
        let nchanged = img.iter().zip(before.iter()).filter(|(x, y)| x != y).count();
        let err = match decode(d, &img, true) {
            Ok(_) => {
                rep.count("mutation-still-valid");
                return;
            }
            Err(e) => e,
        };
        if !matches!(err.class, ErrClass::BadBool | ErrClass::BadTag | ErrClass::BadUtf8) {
            // the corruption turned into a structural problem (e.g. a tag change that makes the payload too short)
            rep.count("mutation-structural");
            return;
        }
        let kinds = path_kinds(d, &v, &r.path);
        let mut arena = Arena::new(img.len(), a * rng.below((64 / a) as u64) as usize, Place::Tail, idx);
        arena.fill_from(&img);
        let res = guarded(|| (vt.validate)(arena.slice()));
        rep.evaluations += 1;
        rep.count(&format!("corrupt:{}", what));
        rep.key(mix(hash_str(vt.name) ^ mix(hash_str(&kinds)) ^ mix(r.off as u64) ^ mix(hash_str(what))));
        let cj = || {
            case_json(ctx, idx)
                .set("shape", J::s(vt.name))
                .set("value", J::s(v.short()))
                .set("image", J::bytes(&img[..img.len().min(128)]))
                .set("corrupted", J::s(format!("{} at [{}..{}) path {:?} ({}); {} byte(s) changed", what, r.off, r.off + r.len, r.path, kinds, nchanged)))
                .set("expected_range", J::s(format!("[{}..{})", err.lo, err.hi)))
        };
        match res {
            Err(p) => {
                if is_harness_panic(&p) {
                    rep.harness_error(p);
                } else {
                    rep.violation(format!("C19|panic|{}", panic_site(&p)), format!("{}: validating a corrupted image panicked: {}", vt.name, p), cj());
                }
            }
            Ok(Ok(())) => rep.violation(
                format!("C19|corruption-accepted|{}|{}", what, kinds),
                format!("{}: image with invalid {} at byte {} was accepted", vt.name, what, err.lo),
                cj(),
            ),
            Ok(Err(e)) => {
                let want = match err.class {
                    ErrClass::BadTag => ErrorKind::InvalidEnumTag,
                    _ => ErrorKind::InvalidData,
                };
                if e.kind != want {
                    rep.violation(
                        format!("C19|wrong-kind|{}|{}|{}", what, kinds, kind_name(&e.kind)),
                        format!("{}: invalid {} at [{}..{}) reported as {:?}", vt.name, what, err.lo, err.hi, e),
                        cj(),
                    );
                } else if e.pos < err.lo || e.pos >= err.hi.max(err.lo + 1) {
                    rep.violation(
                        format!("C19|wrong-position|{}|{}", what, kinds),
                        format!("{}: invalid {} at [{}..{}) reported at pos {}", vt.name, what, err.lo, err.hi, e.pos),
                        cj(),
                    );
                } else {
                    rep.count("position-correct");
                    rep.count(&format!("depth:{}", r.path.len().min(6)));
                }
            }
        }
        rep.sample(5, || cj());
    });
}
