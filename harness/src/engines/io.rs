//! IO engines over scripted pipes:
//!   C07  blocking IO delivers the sent sequence under every chunking
//!   C08  async IO: every chunking, Pending placement and poll schedule
//!   C09  IO faults surface as errors: no hang, no corrupt stream, nothing lost on retry
//!   C10  receiver fed arbitrary bytes never panics or hangs, yields only valid messages

use crate::engine::*;
use crate::inputs::{gen_input, valid_image};
use crate::iofns::*;
use crate::json::J;
use crate::model::*;
use crate::rng::{hash_bytes, hash_str, mix, Rng};
use crate::shape::VT;
use std::io::ErrorKind as IoKind;

fn msg_shapes(ctx: &Ctx) -> Vec<usize> {
    (0..ctx.zoo.len()).filter(|&i| ctx.zoo[i].io.is_some()).collect()
}

const IO_KINDS: &[IoKind] = &[IoKind::Interrupted, IoKind::WouldBlock, IoKind::BrokenPipe, IoKind::ConnectionReset, IoKind::TimedOut, IoKind::Other, IoKind::UnexpectedEof];

fn gen_chunks(rng: &mut Rng, align: usize, typical: usize) -> Vec<usize> {
    match rng.below(8) {
        0 => vec![],                 // everything at once
        1 => vec![1],                // byte by byte
        2 => vec![2],
        3 => vec![align.max(2) - 1, 1, align],
        4 => vec![typical.saturating_sub(1).max(1), 1],
        5 => vec![typical + 1],
        6 => (0..rng.range(2, 9)).map(|_| rng.range(1, 9)).collect(),
        _ => (0..rng.range(2, 12)).map(|_| *rng.pick(&[1usize, 2, 3, align, align + 1, typical, 64])).collect(),
    }
}

struct Built {
    case: IoCase,
    images: Vec<Vec<u8>>, // reference image (first extent bytes) of every message
    desc: String,
}

fn gen_msgs(d: &Desc, rng: &mut Rng, count: usize, budget: usize) -> (Vec<(Value, u64)>, Vec<Vec<u8>>) {
    let mut msgs = Vec::new();
    let mut images = Vec::new();
    for i in 0..count {
        let mut v = gen_value(d, rng, budget);
        // make messages distinguishable: the generator is random enough; ensure variety by regenerating equal neighbours
        if i > 0 && msgs.last().map(|(p, _): &(Value, u64)| p == &v).unwrap_or(false) {
            v = gen_value(d, rng, budget + 3);
        }
        let ext = extent_of(d, &v);
        let img = encode(d, &v, ext, &EncOpts::default(), rng).expect("harness: message must encode");
        msgs.push((v, rng.next()));
        images.push(img);
    }
    (msgs, images)
}

fn base_case(msgs: Vec<(Value, u64)>, max_msg_len: usize, stream_len: usize) -> IoCase {
    IoCase {
        msgs,
        pre: vec![],
        how: vec![],
        raw: vec![],
        max_msg_len,
        wchunks: vec![],
        rchunks: vec![],
        wfault: None,
        rfault: None,
        monitored: false,
        buf_cap: None,
        snd_cap: None,
        stream: None,
        recv_retries: 0,
        recv_after_terminal: 0,
        send_after_error: false,
        max_calls: 4 * stream_len + 64 * 16 + 256,
        capacity: 64,
        schedule: vec![],
        pend_w: vec![],
        pend_r: vec![],
        wake_driven: false,
        max_polls: 0,
        flush_pending: 0,
        max_recvs: 1000,
    }
}

fn build(ctx: &Ctx, vt: &VT, idx: u64, rng: &mut Rng) -> Built {
    let d = &vt.desc;
    let a = d.align();
    let quick = ctx.tier == Tier::Quick;
    let count = match rng.below(6) {
        0 => 0,
        1 => 1,
        2 => 2,
        3 => 3,
        _ => rng.range(0, if quick { 8 } else { 64 }),
    };
    // "trickle" cases: a long run of short writes that the sink always accepts at once (no Pending, no full pipe), over
    // many messages — state that only builds up across uninterrupted progress (counters, budgets) needs such a run
    let mut trng = Rng::new(mix(idx) ^ 0x7716_c1e5);
    let trickle = trng.chance(1, 16);
    let count = if trickle { trng.range(24, if quick { 48 } else { 160 }) } else { count };
    let budget = *rng.pick(&[0usize, 4, 12, 30]);
    let (msgs, images) = gen_msgs(d, rng, count, budget);
    let largest = images.iter().map(|i| i.len()).max().unwrap_or(0).max(d.min_size());
    let max_msg_len = match rng.below(4) {
        0 => largest,
        1 => largest + 1,
        2 => largest * 2,
        _ => largest * 4 + 3,
    };
    let stream_len: usize = images.iter().map(|i| i.len()).sum();
    let mut c = base_case(msgs, max_msg_len, stream_len);
    c.wchunks = gen_chunks(rng, a, largest);
    c.rchunks = gen_chunks(rng, a, largest);
    c.monitored = rng.chance(1, 2);
    if c.monitored && rng.chance(1, 2) {
        // any capacity that can hold the largest message (the io() constructors use twice max_msg_len)
        let l = largest.max(1);
        c.buf_cap = Some(*rng.pick(&[l, l + 1, l + a, l + l / 2, 2 * l - 1, 2 * l, 3 * l]));
    }
    if rng.chance(1, 3) {
        // the sender's buffer built by hand: any capacity that can hold the largest message
        let l = largest.max(1);
        c.snd_cap = Some(*rng.pick(&[l, l, l + 1, l + a, 2 * l - 1, 3 * l]));
    }
    // async parameters
    c.capacity = *rng.pick(&[1usize, 2, 3, a, 17, 64, 1000]);
    let sched_len = rng.range(0, 200);
    c.schedule = (0..sched_len).map(|_| rng.below(2) as u8).collect();
    let pprob = *rng.pick(&[0u64, 1, 3, 6, 9]);
    let plen = rng.range(0, 300);
    c.pend_w = (0..plen).map(|_| (rng.below(10) < pprob) as u8).collect();
    c.pend_r = (0..plen).map(|_| (rng.below(10) < pprob) as u8).collect();
    c.wake_driven = rng.chance(1, 2);
    c.flush_pending = rng.below(3) as usize;
    c.max_polls = 8 * (stream_len + 8 * (count + 1) + 2 * plen + c.schedule.len()) + 256;
    if trickle {
        c.wchunks = vec![trng.range(1, 3)];
        c.pend_w = vec![];
        c.pend_r = vec![];
        c.capacity = usize::MAX / 4;
        c.wake_driven = true;
        c.flush_pending = 0;
        c.snd_cap = None;
    }
    // some messages are first initialised with another value and then replaced through the send guard (own random
    // stream: the rest of the case does not depend on it)
    let mut prng = Rng::new(mix(idx) ^ 0x5eed_6a4d);
    if !d.is_sized() && prng.chance(1, 3) {
        c.pre = c
            .msgs
            .iter()
            .map(|_| {
                if prng.chance(1, 2) {
                    let mut pv = gen_value(d, &mut prng, budget);
                    if extent_of(d, &pv) > largest {
                        pv = crate::inputs::smallest_value(d);
                    }
                    Some((pv, prng.next()))
                } else {
                    None
                }
            })
            .collect();
    }
    if !c.pre.is_empty() && prng.chance(1, 2) {
        // other ways of using the guards: an initialised guard dropped unsent before the message, raw bytes + assume_init
        c.how = c.pre.iter().map(|p| if p.is_some() { prng.below(2) as u8 } else if prng.chance(1, 2) { 2 } else { 0 }).collect();
        c.raw = images.clone();
    }
    Built { case: c, images, desc: String::new() }
}

fn trace_json(t: &IoTrace) -> J {
    J::obj()
        .set("sends", J::Arr(t.sends.iter().map(|s| J::s(format!("{:?}", s))).collect()))
        .set("send_panic", J::s(format!("{:?}", t.send_panic)))
        .set(
            "recvs",
            J::Arr(
                t.recvs
                    .iter()
                    .map(|e| match e {
                        RecvEvent::Msg { value, size, window, misaligned, valid } => J::s(format!("Msg {} size={} window={} misaligned={} valid={}", value.short(), size, window, misaligned, valid)),
                        other => J::s(format!("{:?}", other)),
                    })
                    .collect(),
            ),
        )
        .set("sink_len", J::i(t.sink.len()))
        .set("write_calls", J::i(t.wlog.write_calls))
        .set("read_calls", J::i(t.rlog.read_calls))
        .set("polls", J::i(t.polls))
}

fn case_desc(c: &IoCase) -> J {
    J::obj()
        .set("messages", J::Arr(c.msgs.iter().take(6).map(|(v, _)| J::s(v.short())).collect()))
        .set("n_messages", J::i(c.msgs.len()))
        .set("max_msg_len", J::i(c.max_msg_len))
        .set("snd_cap", J::s(format!("{:?}", c.snd_cap)))
        .set("write_chunks", J::s(format!("{:?}", c.wchunks)))
        .set("read_chunks", J::s(format!("{:?}", c.rchunks)))
        .set("write_fault", J::s(format!("{:?}", c.wfault)))
        .set("read_fault", J::s(format!("{:?}", c.rfault)))
        .set("monitored", J::Bool(c.monitored))
        .set("buffer_capacity", J::s(format!("{:?}", c.buf_cap)))
        .set("capacity", J::i(c.capacity))
        .set("wake_driven", J::Bool(c.wake_driven))
        .set("stream", J::s(c.stream.as_ref().map(|s| match J::bytes(&s[..s.len().min(96)]) { J::Str(x) => x, _ => String::new() }).unwrap_or_default()))
}

/// The sink must be the concatenation of whole messages of the Ok sends followed by at most one
/// partial message (of the last, failed send) and nothing else.  Returns an error description.
fn check_sink(d: &Desc, t: &IoTrace, images: &[Vec<u8>], msgs: &[(Value, u64)]) -> Option<(String, String)> {
    let sink = &t.sink;
    // walk the messages of the successful sends
    let mut off = 0usize;
    for (i, res) in t.sends.iter().enumerate() {
        if res.is_ok() {
            let img = &images[i];
            if sink.len() < off + img.len() {
                return Some(("send-reported-ok-but-bytes-missing".into(), format!("send #{} returned Ok but only {} of its {} bytes are in the sink", i, sink.len().saturating_sub(off), img.len())));
            }
            match decode(d, &sink[off..off + img.len()], true) {
                Ok(x) if x.value == msgs[i].0 => {}
                other => {
                    // maybe a failed send before it left a partial message in the stream
                    let partial_before = t.sends[..i].iter().any(|s| matches!(s, Err(e) if e.starts_with("io")));
                    let sig = if partial_before { "traffic-after-partial-message" } else { "sink-content-differs" };
                    return Some((sig.into(), format!("message #{} expected at stream offset {} decodes to {:?}", i, off, other.map(|x| x.value.short()))));
                }
            }
            off += img.len();
        }
    }
    if sink.len() == off {
        return None;
    }
    // trailing bytes: they must be a proper prefix of the message of the last attempted send, and that send must have failed
    let rest = sink.len() - off;
    let last = t.sends.len().checked_sub(1);
    let in_flight = if t.sends.len() < msgs.len() { Some(t.sends.len()) } else { None };
    let cand = match (last, in_flight) {
        (Some(l), _) if matches!(&t.sends[l], Err(e) if e.starts_with("io")) => Some(l),
        (_, Some(f)) => Some(f), // a send that never returned (panic / breaker / task not completed)
        _ => None,
    };
    match cand {
        Some(i) if rest <= images[i].len() => {
            let img = &images[i];
            if let Ok(refdec) = decode(d, img, true) {
                for r in &refdec.parsed.recs {
                    if r.off + r.len <= rest && sink[off + r.off..off + r.off + r.len] != img[r.off..r.off + r.len] {
                        return Some(("partial-message-content-differs".into(), format!("partial message #{}: bytes [{}..{}) differ", i, r.off, r.off + r.len)));
                    }
                }
            }
            if rest == img.len() && matches!(t.sends.get(i), Some(Err(_))) {
                return Some(("failed-send-fully-written".into(), format!("send #{} failed but all its {} bytes are in the sink", i, img.len())));
            }
            None
        }
        _ => Some(("extra-bytes-in-sink".into(), format!("sink holds {} bytes, the successful sends account for {}", sink.len(), off))),
    }
}

pub fn run(ctx: &Ctx, rep: &mut Report) {
    let prop = ctx.prop.clone();
    let shapes = msg_shapes(ctx);
    if shapes.is_empty() {
        rep.harness_error("no message shapes".into());
        return;
    }
    let is_async_prop = prop == "C08";
    let mut susp: std::collections::HashSet<(char, usize)> = std::collections::HashSet::new();
    ctx.for_cases(rep, |idx, rep| {
        let mut rng = Rng::derive(ctx.seed, idx, hash_str(&prop) ^ hash_str(&ctx.sub));
        let (si, mut b, mode): (usize, Built, &str);
        let mut enum_fault_desc: Option<&'static str> = None;
        if ctx.sub == "compose" {
            // exhaustive chunk compositions of small streams
            let combo = idx >> 11;
            let bits = idx & 0x7ff;
            let mut crng = Rng::derive(ctx.seed, combo, 0xC0);
            si = shapes[crng.below(shapes.len() as u64) as usize];
            let d = &ctx.zoo[si].desc;
            // messages until the stream has 4..=12 bytes
            let mut msgs = Vec::new();
            let mut images: Vec<Vec<u8>> = Vec::new();
            for _ in 0..6 {
                let (m, im) = gen_msgs(d, &mut crng, 1, 2);
                let total: usize = images.iter().map(|i| i.len()).sum::<usize>() + im[0].len();
                if total > 12 {
                    break;
                }
                msgs.extend(m);
                images.extend(im);
            }
            let n: usize = images.iter().map(|i| i.len()).sum();
            if n < 2 || bits >= (1u64 << (n - 1)) {
                return;
            }
            // composition: bit i set => cut after byte i
            let mut chunks = Vec::new();
            let mut run = 1;
            for i in 0..n - 1 {
                if bits >> i & 1 == 1 {
                    chunks.push(run);
                    run = 1;
                } else {
                    run += 1;
                }
            }
            chunks.push(run);
            chunks.push(1_000_000);
            let largest = images.iter().map(|i| i.len()).max().unwrap_or(0).max(d.min_size());
            let mut c = base_case(msgs, largest, n);
            if combo % 2 == 0 {
                c.rchunks = chunks;
            } else {
                c.wchunks = chunks;
            }
            c.monitored = combo % 4 < 2;
            if combo % 4 == 0 {
                c.buf_cap = Some(largest.max(1) + (combo as usize / 4) % 3);
            }
            c.capacity = 1 + (combo % 5) as usize;
            c.max_polls = 100_000;
            c.wake_driven = combo % 3 == 0;
            b = Built { case: c, images, desc: format!("combo {} bits {:b}", combo, bits) };
            mode = if is_async_prop { "async" } else { "blocking" };
            rep.count("compose-cases");
        } else if ctx.sub == "sched" {
            // C08: every schedule prefix of 10 polls x 8 Pending patterns for tiny configurations
            let combo = idx >> 13;
            let bits = idx & 0x1fff;
            let mut crng = Rng::derive(ctx.seed, combo, 0x5C);
            si = shapes[crng.below(shapes.len() as u64) as usize];
            let d = &ctx.zoo[si].desc;
            let (msgs, images) = gen_msgs(d, &mut crng, 1 + (combo % 2) as usize, 3);
            let n: usize = images.iter().map(|i| i.len()).sum();
            let largest = images.iter().map(|i| i.len()).max().unwrap_or(0).max(d.min_size());
            let mut c = base_case(msgs, largest, n);
            c.capacity = 1 + (combo % 3) as usize;
            c.schedule = (0..10).map(|i| ((bits >> i) & 1) as u8).collect();
            let pat = (bits >> 10) & 7;
            let mk = |period: usize, phase: usize, len: usize| (0..len).map(|i| ((i + phase) % period == 0) as u8).collect::<Vec<u8>>();
            let (pw, pr): (Vec<u8>, Vec<u8>) = match pat {
                0 => (vec![], vec![]),
                1 => (mk(1, 0, 3), vec![]),
                2 => (vec![], mk(1, 0, 3)),
                3 => (mk(2, 0, 12), mk(2, 1, 12)),
                4 => (mk(2, 1, 12), mk(2, 0, 12)),
                5 => (mk(3, 0, 18), mk(3, 0, 18)),
                6 => (mk(1, 0, 2), mk(1, 0, 2)),
                _ => (mk(3, 1, 18), mk(2, 0, 12)),
            };
            c.pend_w = pw;
            c.pend_r = pr;
            c.flush_pending = (combo % 2) as usize;
            c.wake_driven = combo % 4 >= 2;
            c.monitored = combo % 2 == 0;
            c.max_polls = 50_000;
            b = Built { case: c, images, desc: format!("combo {} schedule {:010b} pending pattern {}", combo, bits & 0x3ff, pat) };
            mode = "async";
            rep.count("sched-cases");
        } else if ctx.sub == "enum" {
            // C09: every stream position x fault kind x (one-shot | persistent) x side x mode for a small message sequence
            let combo = idx / 3072;
            let within = idx % 3072;
            let mut crng = Rng::derive(ctx.seed, combo, 0xC9);
            si = shapes[crng.below(shapes.len() as u64) as usize];
            let d = &ctx.zoo[si].desc;
            let mut msgs = Vec::new();
            let mut images: Vec<Vec<u8>> = Vec::new();
            let want = crng.range(1, 4);
            for _ in 0..want {
                let (m, im) = gen_msgs(d, &mut crng, 1, 6);
                let total: usize = images.iter().map(|i| i.len()).sum::<usize>() + im[0].len();
                if total > 47 {
                    break;
                }
                msgs.extend(m);
                images.extend(im);
            }
            let n: usize = images.iter().map(|i| i.len()).sum();
            let pos = (within % 48) as usize;
            let rest = within / 48;
            let kind_i = (rest % 8) as usize;
            let persistent = (rest / 8) % 2 == 1;
            let read_side = (rest / 16) % 2 == 1;
            let asyn = (rest / 32) % 2 == 1;
            if pos > n || msgs.is_empty() {
                return;
            }
            let largest = images.iter().map(|i| i.len()).max().unwrap_or(0).max(d.min_size());
            let mut c = base_case(msgs, largest * 2, n);
            let kind = if kind_i == 7 { FaultKind::Zero } else { FaultKind::Err(IO_KINDS[kind_i]) };
            let f = Fault { at: pos, kind, times: if persistent { usize::MAX } else { 1 }, then: None };
            c.wchunks = gen_chunks(&mut crng, d.align(), largest);
            c.rchunks = gen_chunks(&mut crng, d.align(), largest);
            c.capacity = usize::MAX / 4;
            c.max_polls = 200_000;
            c.wake_driven = combo % 2 == 0;
            if read_side {
                c.rfault = Some(f);
                c.recv_retries = if persistent { 2 } else { 4 };
            } else {
                c.wfault = Some(f);
                c.send_after_error = !persistent && combo % 3 != 0;
            }
            enum_fault_desc = Some(match (read_side, persistent, matches!(kind, FaultKind::Zero)) {
                (false, true, _) => "write-persistent",
                (false, false, _) => "write-transient",
                (true, _, true) => "read-eof",
                (true, true, false) => "read-persistent",
                (true, false, false) => "read-transient",
            });
            b = Built { case: c, images, desc: format!("combo {} pos {} kind {:?} persistent {} read_side {}", combo, pos, kind, persistent, read_side) };
            mode = if asyn { "async" } else { "blocking" };
            rep.count("enum-cases");
        } else {
            si = shapes[rng.below(shapes.len() as u64) as usize];
            b = build(ctx, &ctx.zoo[si], idx, &mut rng);
            mode = match prop.as_str() {
                "C07" => {
                    if ctx.sub == "threaded" {
                        "threaded"
                    } else {
                        "blocking"
                    }
                }
                "C08" => "async",
                _ => {
                    if rng.chance(1, 2) {
                        "blocking"
                    } else {
                        "async"
                    }
                }
            };
        }
        let vt = &ctx.zoo[si];
        let d = &vt.desc;
        let io = vt.io.as_ref().unwrap();
        let stream_len: usize = b.images.iter().map(|i| i.len()).sum();

        // property specific shaping of the case
        let mut fault_desc = "none";
        let mut multi_fault = false;
        if let Some(fd) = enum_fault_desc {
            fault_desc = fd;
        } else if prop == "C09" {
            b.case.monitored = false;
            let pos = match rng.below(5) {
                0 => 0,
                1 => stream_len,
                2 => {
                    // a message boundary
                    let k = rng.range(0, b.images.len());
                    b.images[..k].iter().map(|i| i.len()).sum()
                }
                _ => rng.range(0, stream_len),
            };
            let kind = if rng.chance(1, 4) { FaultKind::Zero } else { FaultKind::Err(*rng.pick(IO_KINDS)) };
            let times = *rng.pick(&[1usize, 1, 2, usize::MAX]);
            let mut f = Fault { at: pos, kind, times, then: None };
            let mut extra_faults = 0;
            if times != usize::MAX && !matches!(kind, FaultKind::Zero) && rng.chance(1, 3) {
                // a script with a second (and third) transient fault further down the stream
                let mut at = pos;
                let mut chain: Option<Box<Fault>> = None;
                let k = rng.range(1, 2);
                let mut specs = Vec::new();
                for _ in 0..k {
                    at = rng.range(at, stream_len);
                    specs.push((at, FaultKind::Err(*rng.pick(IO_KINDS)), rng.range(1, 2)));
                }
                for (at, kind, times) in specs.into_iter().rev() {
                    extra_faults += times;
                    chain = Some(Box::new(Fault { at, kind, times, then: chain }));
                }
                f.then = chain;
            }
            if rng.chance(1, 2) {
                b.case.wfault = Some(f);
                b.case.send_after_error = times != usize::MAX && rng.chance(1, 2);
                fault_desc = if times == usize::MAX { "write-persistent" } else { "write-transient" };
            } else {
                b.case.rfault = Some(f);
                // the receiver may stop early: the sender must never block on a full pipe
                b.case.capacity = usize::MAX / 4;
                b.case.recv_retries = if times == usize::MAX { 2 } else { 4 + extra_faults };
                if extra_faults > 0 {
                    multi_fault = true;
                }
                fault_desc = if matches!(kind, FaultKind::Zero) { "read-eof" } else if times == usize::MAX { "read-persistent" } else { "read-transient" };
            }
        }
        let mut expected_c10: Vec<&'static str> = Vec::new();
        if prop == "C10" {
            // hostile stream: random bytes / mutated valid streams / truncations
            let mut s: Vec<u8> = Vec::new();
            let pieces = rng.range(1, 5);
            for _ in 0..pieces {
                match rng.below(6) {
                    0 | 1 => {
                        let (_, img, ext) = valid_image(d, &mut rng, 16);
                        s.extend_from_slice(&img[..ext.min(img.len())]);
                    }
                    2 | 3 | 4 => {
                        let inp = gen_input(d, &mut rng, 96);
                        s.extend_from_slice(&inp.bytes);
                        // keep following messages aligned most of the time
                        if rng.chance(3, 4) {
                            while s.len() % d.align() != 0 {
                                s.push(0);
                            }
                        }
                    }
                    _ => {
                        let k = rng.range(1, 24);
                        for _ in 0..k {
                            s.push(rng.next() as u8);
                        }
                    }
                }
            }
            if rng.chance(1, 3) {
                let k = rng.range(0, s.len());
                s.truncate(k);
            }
            b.case.max_msg_len = *rng.pick(&[d.min_size().max(8), 16, 40, 128]);
            b.case.buf_cap = None;
            b.case.max_calls = 8 * s.len() + 512;
            b.case.max_polls = 64 * (s.len() + 64) + 4 * b.case.pend_r.len();
            b.case.monitored = rng.chance(2, 3);
            if b.case.monitored && rng.chance(1, 3) {
                // a hand-built buffer of another capacity (any capacity >= MIN_SIZE is legal for a hostile stream)
                let m = b.case.max_msg_len.max(d.min_size());
                b.case.buf_cap = Some(*rng.pick(&[m, m + 1, m + d.align(), 3 * m / 2 + 1, 3 * m]));
            }
            b.case.max_recvs = s.len() + 8;
            // recv is called again after its first terminal outcome: every call must return (no panic, no spinning)
            b.case.recv_after_terminal = (mix(idx ^ 0x7e41) % 3) as usize;
            b.case.stream = Some(s);
            b.case.msgs.clear();
        }
        let case = &b.case;
        let cj = |t: &IoTrace| case_json(ctx, idx).set("shape", J::s(vt.name)).set("io_mode", J::s(mode)).set("case", case_desc(case)).set("trace", trace_json(t)).set("note", J::s(b.desc.clone()));

        let t = match mode {
            "blocking" => (io.blocking)(case),
            "async" => (io.async_)(case),
            _ => (io.threaded)(case),
        };
        rep.evaluations += 1;
        rep.count(&format!("mode:{}", mode));
        rep.add("pipe-calls", (t.wlog.calls + t.rlog.calls) as u64);
        rep.add("messages-sent", t.sends.iter().filter(|s| s.is_ok()).count() as u64);
        rep.add("messages-received", t.recvs.iter().filter(|e| matches!(e, RecvEvent::Msg { .. })).count() as u64);
        if mode == "async" {
            rep.add("polls", t.polls as u64);
            rep.max("max:polls-to-completion", t.polls as u64);
            rep.add("injected-pendings", t.wlog.events.iter().filter(|e| e.2 == -2).count() as u64);
            // suspension points: (pipe call kind, stream position at which the task was suspended)
            let mut pos = 0usize;
            for e in &t.wlog.events {
                if e.2 > 0 && e.0 == 'w' {
                    pos += e.2 as usize;
                }
                if e.2 == -2 {
                    rep.count(match e.0 {
                        'w' => "pending:poll_write",
                        'r' => "pending:poll_read",
                        _ => "pending:poll_flush",
                    });
                    susp.insert((e.0, pos.min(255)));
                }
            }
        }
        rep.key(mix(
            hash_str(vt.name)
                ^ mix(hash_str(&format!("{:?}{:?}{}{}{:?}", case.wchunks, case.rchunks, case.capacity, case.wake_driven, case.buf_cap)))
                ^ mix(hash_bytes(&case.schedule)).rotate_left(3)
                ^ mix(hash_bytes(&case.pend_w)).rotate_left(11)
                ^ mix(hash_str(&format!("{:?}{:?}", case.wfault, case.rfault)))
                ^ mix(hash_bytes(case.stream.as_deref().unwrap_or(&[])))
                ^ mix(stream_len as u64),
        ));

        // ---- panics / breakers (all IO properties)
        let mut panics: Vec<(String, &'static str)> = Vec::new();
        if let Some(p) = &t.send_panic {
            panics.push((p.clone(), "send"));
        }
        for e in &t.recvs {
            if let RecvEvent::Panic(p) = e {
                panics.push((p.clone(), "recv"));
            }
        }
        for (p, side) in &panics {
            if p.contains("harness-breaker") {
                rep.violation(
                    format!("{}|unbounded-retry|{}|{}", prop, side, mode),
                    format!("{} ({}): {} made more than {} pipe calls without returning (fault: {})", vt.name, mode, side, case.max_calls, fault_desc),
                    cj(&t),
                );
            } else if is_harness_panic(p) {
                rep.harness_error(format!("idx={} {}", idx, p));
            } else if prop == "C09" && case.wfault.is_some() && p.contains("assertion failed") && p.contains("poisoned") && t.sends.iter().any(|s| s.is_err()) {
                // documented refusal: a sender that wrote part of a message refuses further traffic
                // (only write faults can poison; sender and receiver have separate buffers).  Recognised by the
                // assertion on the `poisoned` flag, however the flag is spelled in the asserting expression.
                let _ = side;
                rep.count("poisoned-refusal");
            } else {
                rep.violation(format!("{}|panic|{}|{}", prop, side, panic_site(p)), format!("{} ({}): {} panicked: {}", vt.name, mode, side, p), cj(&t));
            }
        }
        if t.deadlock {
            rep.violation(format!("{}|lost-wakeup|{}", prop, mode), format!("{}: both tasks pending, no waker fired, stream incomplete", vt.name), cj(&t));
        }
        if t.poll_bound_hit {
            rep.violation(format!("{}|poll-bound-exceeded|{}", prop, mode), format!("{}: futures not complete after {} polls", vt.name, case.max_polls), cj(&t));
        }

        // ---- C07 / C08: exactly-once, in-order delivery
        if prop == "C07" || prop == "C08" {
            if !panics.is_empty() || t.deadlock || t.poll_bound_hit {
                return;
            }
            for (i, s) in t.sends.iter().enumerate() {
                if let Err(e) = s {
                    rep.violation(format!("{}|send-failed|{}", prop, mode), format!("{}: send #{} failed on a healthy pipe: {}", vt.name, i, e), cj(&t));
                    return;
                }
            }
            if mode != "threaded" {
                if let Some((sig, what)) = check_sink(d, &t, &b.images, &case.msgs) {
                    rep.violation(format!("{}|{}|{}", prop, sig, mode), format!("{}: {}", vt.name, what), cj(&t));
                }
            }
            let got: Vec<&RecvEvent> = t.recvs.iter().collect();
            let mut ok = got.len() == case.msgs.len() + 1 && matches!(got.last(), Some(RecvEvent::Closed));
            if ok {
                for (i, (v, _)) in case.msgs.iter().enumerate() {
                    match got[i] {
                        RecvEvent::Msg { value, valid, misaligned, .. } if value == v && *valid && !*misaligned => {}
                        _ => ok = false,
                    }
                }
            }
            if !ok {
                let first_bad = t.recvs.iter().enumerate().find(|(i, e)| match (e, case.msgs.get(*i)) {
                    (RecvEvent::Msg { value, valid, misaligned, .. }, Some((v, _))) => value != v || !*valid || *misaligned,
                    (RecvEvent::Closed, None) => false,
                    _ => true,
                });
                let kind = match first_bad.map(|x| x.1) {
                    Some(RecvEvent::Parse(_)) => "parse-error-on-well-formed-stream",
                    Some(RecvEvent::Read(_)) => "read-error-on-well-formed-stream",
                    Some(RecvEvent::Closed) => "closed-before-all-messages",
                    Some(RecvEvent::Msg { .. }) => "message-differs-or-extra",
                    _ => "missing-closed",
                };
                rep.violation(
                    format!("{}|{}|{}", prop, kind, mode),
                    format!("{}: received sequence differs from the sent one at #{:?} ({} sent, {} events)", vt.name, first_bad.map(|x| x.0), case.msgs.len(), t.recvs.len()),
                    cj(&t),
                );
            }
            if case.buf_cap.is_some() {
                rep.count("non-default-buffer-capacity");
            }
            if case.capacity == usize::MAX / 4 && case.wake_driven && case.pend_w.is_empty() && case.msgs.len() >= 24 {
                rep.count("trickle-cases");
                rep.max("max:consecutive-ready-short-writes", t.wlog.events.iter().filter(|e| e.0 == 'w' && e.2 > 0).count() as u64);
            }
            let edited = case.pre.iter().filter(|p| p.is_some()).count();
            if edited > 0 && mode != "threaded" {
                rep.add("messages-replaced-through-send-guard", edited as u64);
            }
            if !case.how.is_empty() && mode != "threaded" {
                rep.add("guards-dropped-unsent", case.how.iter().filter(|h| **h == 1).count() as u64);
                rep.add("messages-written-as-raw-bytes", case.how.iter().filter(|h| **h == 2).count() as u64);
            }
            if case.monitored && mode != "threaded" {
                if t.mon.misaligned_windows > 0 {
                    rep.violation(format!("{}|window-misaligned|{}", prop, mode), format!("{}: the occupied window started at a misaligned address {} times", vt.name, t.mon.misaligned_windows), cj(&t));
                }
                if let Some((c, o)) = t.mon.skips.iter().find(|(c, o)| c > o) {
                    rep.violation(format!("{}|skip-exceeds-window|{}", prop, mode), format!("{}: skip({}) with only {} bytes occupied", vt.name, c, o), cj(&t));
                }
                rep.add("window-observations", (t.mon.skips.len() + t.mon.reads.len()) as u64);
            }
            if mode == "async" {
                if let Some(i) = t.flushed_before_done.iter().position(|f| !*f) {
                    rep.violation(format!("C08|send-completed-without-flush|{}", mode), format!("{}: send #{} completed without a ready poll_flush after its last byte", vt.name, i), cj(&t));
                }
                rep.add("flush-checked-sends", t.flushed_before_done.len() as u64);
            }
        }

        // ---- C09
        if prop == "C09" {
            rep.count(&format!("fault:{}", fault_desc));
            if multi_fault {
                rep.count("fault-script:several-transient-read-faults");
                rep.max("max:faults-injected-in-one-case", t.rlog.faults_injected as u64);
            }
            if t.wlog.faults_injected + t.rlog.faults_injected == 0 {
                rep.count("fault-not-reached");
            }
            if !panics.iter().any(|(p, _)| p.contains("harness-breaker")) {
                if let Some((sig, what)) = check_sink(d, &t, &b.images, &case.msgs) {
                    rep.violation(format!("C09|{}|{}|{}", sig, mode, fault_desc), format!("{}: {}", vt.name, what), cj(&t));
                }
            }
            if case.wfault.is_some() && fault_desc == "write-persistent" && t.wlog.faults_injected > 0 {
                // the pending send must fail within a small number of calls once every call fails
                // (injected Pendings are honest spurious wake-ups and may precede the failing call again)
                let pend_slack = case.pend_w.iter().filter(|x| **x != 0).count();
                if t.wlog.write_calls_after_first_fault > 2 + pend_slack {
                    rep.violation(format!("C09|too-many-calls-after-persistent-fault|{}", mode), format!("{}: {} write calls after the sink started failing persistently", vt.name, t.wlog.write_calls_after_first_fault), cj(&t));
                }
                rep.max("max:write-calls-after-persistent-fault", t.wlog.write_calls_after_first_fault as u64);
                if t.sends.iter().all(|s| s.is_ok()) && t.send_panic.is_none() && t.sends.len() == case.msgs.len() && !case.msgs.is_empty() && t.wlog.faults_injected > 0 {
                    rep.violation(format!("C09|fault-reported-as-success|{}", mode), format!("{}: every send returned Ok although the sink fails persistently at byte {}", vt.name, case.wfault.as_ref().unwrap().at), cj(&t));
                }
            }
            if case.rfault.is_some() && panics.is_empty() {
                // messages handed out must be a prefix of the sent sequence, each exactly once
                let got: Vec<&Value> = t.recvs.iter().filter_map(|e| if let RecvEvent::Msg { value, .. } = e { Some(value) } else { None }).collect();
                let sent: Vec<&Value> = case.msgs.iter().map(|(v, _)| v).collect();
                let is_prefix = got.len() <= sent.len() && got.iter().zip(sent.iter()).all(|(a, b)| a == b);
                if !is_prefix {
                    rep.violation(format!("C09|lost-or-duplicated-after-read-fault|{}|{}", mode, fault_desc), format!("{}: received {} messages that are not a prefix of the {} sent", vt.name, got.len(), sent.len()), cj(&t));
                } else if fault_desc == "read-transient" && got.len() != sent.len() && t.rlog.faults_injected > 0 {
                    rep.violation(format!("C09|messages-lost-after-transient-read-error|{}", mode), format!("{}: only {} of {} messages arrived although the read error was transient and recv was retried", vt.name, got.len(), sent.len()), cj(&t));
                } else if t.rlog.faults_injected > 0 {
                    rep.count("read-fault-recovered-or-reported");
                }
                if fault_desc == "read-persistent" && t.rlog.faults_injected > 0 && !t.recvs.iter().any(|e| matches!(e, RecvEvent::Read(_))) {
                    rep.violation(format!("C09|read-fault-not-reported|{}", mode), format!("{}: persistent read error never surfaced as RecvError::Read", vt.name), cj(&t));
                }
            }
        }

        // ---- C10
        if prop == "C10" && case.recv_after_terminal > 0 {
            let term = t.recvs.iter().position(|e| !matches!(e, RecvEvent::Msg { .. }));
            if let Some(k) = term {
                rep.add("recv-calls-after-terminal-outcome", (t.recvs.len() - k - 1) as u64);
            }
        }
        if prop == "C10" {
            let stream = case.stream.as_ref().unwrap();
            let cap = case.buf_cap.unwrap_or(2 * case.max_msg_len.max(d.min_size()));
            // walk the stream with the reference decoder to predict each recv outcome
            let mut p = 0usize;
            let mut i = 0usize;
            loop {
                let ev = match t.recvs.get(i) {
                    Some(e) => e,
                    None => {
                        if !panics.is_empty() {
                            break;
                        }
                        rep.violation(format!("C10|recv-sequence-ends-without-terminal-outcome|{}", mode), format!("{}: {} recv outcomes, none terminal", vt.name, t.recvs.len()), cj(&t));
                        break;
                    }
                };
                if matches!(ev, RecvEvent::Panic(_)) {
                    break;
                }
                let window = &stream[p.min(stream.len())..(p + cap).min(stream.len())];
                // alignment: the receive buffer is aligned and p is a sum of sizes (multiples of ALIGN when sizes are right)
                let verdict = decide(d, window, p % d.align().max(1));
                let expect: &'static str = match &verdict {
                    Verdict::MustOk(_) => "msg",
                    Verdict::May(_) => "msg-or-short",
                    Verdict::MustErr(e) => match e.class {
                        ErrClass::Short => {
                            if stream.len() - p.min(stream.len()) >= cap {
                                "read-oom"
                            } else {
                                "closed"
                            }
                        }
                        // an offset smaller than a slot is a broken header, not broken content: either answer is fine
                        ErrClass::BadOffset => "parse-or-short",
                        _ => "parse",
                    },
                };
                expected_c10.push(expect);
                let got: &'static str = match ev {
                    RecvEvent::Msg { .. } => "msg",
                    RecvEvent::Parse(_) => "parse",
                    RecvEvent::Read(_) => "read-oom",
                    RecvEvent::Closed => "closed",
                    RecvEvent::Panic(_) => "panic",
                };
                rep.count(&format!("c10:expect:{}", expect));
                let compatible = match (expect, got) {
                    (a, b) if a == b => true,
                    ("msg-or-short", "msg") | ("msg-or-short", "closed") | ("msg-or-short", "read-oom") => true,
                    ("parse-or-short", "parse") | ("parse-or-short", "closed") | ("parse-or-short", "read-oom") => true,
                    _ => false,
                };
                if !compatible {
                    let sig = match (expect, got) {
                        ("parse", "closed") | ("parse", "read-oom") => "malformed-content-not-reported-as-parse-error".to_string(),
                        ("closed", "msg") | ("read-oom", "msg") | ("parse", "msg") => "invalid-message-handed-out".to_string(),
                        _ => format!("outcome-{}-expected-{}", got, expect),
                    };
                    rep.violation(format!("C10|{}|{}", sig, crate::engines::bytes_in::kind_path(d)), format!("{} ({}): recv #{} at stream offset {}: got {:?}, the reference decoder expects {}", vt.name, mode, i, p, ev, expect), cj(&t));
                    break;
                }
                match ev {
                    RecvEvent::Msg { value, size, window: w, misaligned, valid } => {
                        let refv = match &verdict {
                            Verdict::MustOk(x) | Verdict::May(x) => x,
                            _ => unreachable!(),
                        };
                        if *value != refv.value || !*valid || *misaligned {
                            rep.violation(format!("C10|handed-out-message-differs-from-reference|{}", crate::engines::bytes_in::kind_path(d)), format!("{}: recv #{} handed out {} (valid={} misaligned={}), reference decoding of the received bytes is {}", vt.name, i, value.short(), valid, misaligned, refv.value.short()), cj(&t));
                            break;
                        }
                        if *size != refv.extent || *size > *w {
                            rep.violation(format!("C10|consumed-size-differs|{}", crate::engines::bytes_in::kind_path(d)), format!("{}: recv #{} consumes {} bytes, reference extent {} (value covers {} bytes)", vt.name, i, size, refv.extent, w), cj(&t));
                            break;
                        }
                        p += *size;
                        i += 1;
                    }
                    _ => break,
                }
            }
            if case.monitored {
                if let Some((c, o)) = t.mon.skips.iter().find(|(c, o)| c > o) {
                    rep.violation(format!("C10|skip-exceeds-received|{}", mode), format!("{}: skip({}) with only {} bytes occupied", vt.name, c, o), cj(&t));
                }
                if t.mon.skipped > t.mon.received {
                    rep.violation(format!("C10|consumed-more-than-received|{}", mode), format!("{}: {} bytes consumed, {} received", vt.name, t.mon.skipped, t.mon.received), cj(&t));
                }
            }
        }
        rep.sample(4, || cj(&t).set("expected", J::s(format!("{:?}", expected_c10))));
    });
    rep.add("max:distinct-suspension-points(kind,stream-position)", susp.len() as u64);
}
