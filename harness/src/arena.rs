//! Guarded buffers: a slice of exactly `n` bytes at a chosen address offset,
//! either at the very end of its own allocation ("tail": one byte past it is
//! outside the allocation, so Miri / ASan / memcheck see any overrun) or inside
//! a larger block of canary bytes ("island": stray writes that stay inside
//! mapped memory are found by comparing the canaries afterwards).

use crate::rng::Rng;
use std::alloc::{alloc, dealloc, Layout};

pub const BASE_ALIGN: usize = 64;
const PAD: usize = 64;

#[derive(Clone, Copy, Debug, PartialEq, Eq)]
pub enum Place {
    Tail,
    Island,
}

pub struct Arena {
    ptr: *mut u8,
    layout: Layout,
    start: usize,
    n: usize,
    place: Place,
    canary_seed: u64,
    /// set once the bytes outside the slice were rewritten on purpose: what they must still be afterwards
    outside: Option<Vec<u8>>,
}

impl Arena {
    /// `off` is the wanted `address % BASE_ALIGN` of the slice.
    pub fn new(n: usize, off: usize, place: Place, canary_seed: u64) -> Arena {
        let off = off % BASE_ALIGN;
        let (start, total) = match place {
            Place::Tail => {
                // slice = last n bytes; start must be ≡ off mod BASE_ALIGN
                (off, off + n)
            }
            Place::Island => (PAD + off, PAD + off + n + PAD),
        };
        let layout = Layout::from_size_align(total.max(1), BASE_ALIGN).unwrap();
        let ptr = unsafe { alloc(layout) };
        assert!(!ptr.is_null());
        let a = Arena { ptr, layout, start, n, place, canary_seed, outside: None };
        // initialise everything (the harness never hands out uninitialised bytes)
        let all = unsafe { std::slice::from_raw_parts_mut(ptr, layout.size()) };
        let mut r = Rng::new(canary_seed);
        r.fill(all);
        a
    }
    /// Cheap variant for interpreters: constant fill, no canary bookkeeping (the interpreter
    /// itself reports any access outside the slice).
    pub fn new_lean(n: usize, off: usize, place: Place) -> Arena {
        let off = off % BASE_ALIGN;
        let (start, total) = match place {
            Place::Tail => (off, off + n),
            Place::Island => (PAD + off, PAD + off + n + PAD),
        };
        let layout = Layout::from_size_align(total.max(1), BASE_ALIGN).unwrap();
        let ptr = unsafe { alloc(layout) };
        assert!(!ptr.is_null());
        unsafe { std::ptr::write_bytes(ptr, 0xA5, layout.size()) };
        Arena { ptr, layout, start, n, place, canary_seed: 0, outside: None }
    }
    pub fn len(&self) -> usize {
        self.n
    }
    pub fn addr(&self) -> usize {
        self.ptr as usize + self.start
    }
    pub fn slice(&self) -> &[u8] {
        unsafe { std::slice::from_raw_parts(self.ptr.add(self.start), self.n) }
    }
    pub fn slice_mut(&mut self) -> &mut [u8] {
        unsafe { std::slice::from_raw_parts_mut(self.ptr.add(self.start), self.n) }
    }
    pub fn fill_from(&mut self, src: &[u8]) {
        self.slice_mut().copy_from_slice(src);
    }
    /// Overwrite every byte outside the slice with `byte` (the surroundings of a slice must not influence what the
    /// library computes from the slice).
    pub fn fill_outside(&mut self, byte: u8) {
        let all = unsafe { std::slice::from_raw_parts_mut(self.ptr, self.layout.size()) };
        for i in 0..all.len() {
            if i < self.start || i >= self.start + self.n {
                all[i] = byte;
            }
        }
        self.outside = Some(all.to_vec());
    }
    /// Write `src` (as much as fits) right behind the slice; the other surrounding bytes keep their contents.
    pub fn write_after(&mut self, src: &[u8]) {
        let all = unsafe { std::slice::from_raw_parts_mut(self.ptr, self.layout.size()) };
        let from = self.start + self.n;
        let k = src.len().min(all.len() - from);
        all[from..from + k].copy_from_slice(&src[..k]);
        self.outside = Some(all.to_vec());
    }
    /// Compare every byte outside the slice with the canary pattern.
    /// Returns the offsets (relative to the slice start, may be negative) that changed.
    pub fn check_canaries(&self) -> Vec<isize> {
        let all = unsafe { std::slice::from_raw_parts(self.ptr, self.layout.size()) };
        let mut expect = vec![0u8; all.len()];
        match &self.outside {
            Some(o) => expect.copy_from_slice(o),
            None => Rng::new(self.canary_seed).fill(&mut expect),
        }
        let mut bad = Vec::new();
        for i in 0..all.len() {
            if i >= self.start && i < self.start + self.n {
                continue;
            }
            if all[i] != expect[i] {
                bad.push(i as isize - self.start as isize);
            }
        }
        bad
    }
    pub fn place(&self) -> Place {
        self.place
    }
}

impl Drop for Arena {
    fn drop(&mut self) {
        unsafe { dealloc(self.ptr, self.layout) }
    }
}
