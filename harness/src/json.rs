//! Minimal JSON writer (no external crates are available for the harness).

use std::fmt::Write;

#[derive(Clone, Debug)]
pub enum J {
    Null,
    Bool(bool),
    Int(i128),
    Str(String),
    Arr(Vec<J>),
    Obj(Vec<(String, J)>),
}

impl J {
    pub fn obj() -> J {
        J::Obj(Vec::new())
    }
    pub fn set(mut self, k: &str, v: J) -> J {
        if let J::Obj(ref mut o) = self {
            o.push((k.to_string(), v));
        }
        self
    }
    pub fn put(&mut self, k: &str, v: J) {
        if let J::Obj(ref mut o) = self {
            o.push((k.to_string(), v));
        }
    }
    pub fn s(x: impl Into<String>) -> J {
        J::Str(x.into())
    }
    pub fn i(x: impl TryInto<i128>) -> J {
        J::Int(x.try_into().ok().unwrap_or(i128::MAX))
    }
    pub fn bytes(b: &[u8]) -> J {
        let mut s = String::with_capacity(b.len() * 2);
        for x in b {
            let _ = write!(s, "{:02x}", x);
        }
        J::Str(s)
    }
    pub fn render(&self, out: &mut String) {
        match self {
            J::Null => out.push_str("null"),
            J::Bool(b) => out.push_str(if *b { "true" } else { "false" }),
            J::Int(i) => {
                let _ = write!(out, "{}", i);
            }
            J::Str(s) => {
                out.push('"');
                for c in s.chars() {
                    match c {
                        '"' => out.push_str("\\\""),
                        '\\' => out.push_str("\\\\"),
                        '\n' => out.push_str("\\n"),
                        '\r' => out.push_str("\\r"),
                        '\t' => out.push_str("\\t"),
                        c if (c as u32) < 0x20 => {
                            let _ = write!(out, "\\u{:04x}", c as u32);
                        }
                        c => out.push(c),
                    }
                }
                out.push('"');
            }
            J::Arr(a) => {
                out.push('[');
                for (i, x) in a.iter().enumerate() {
                    if i > 0 {
                        out.push(',');
                    }
                    x.render(out);
                }
                out.push(']');
            }
            J::Obj(o) => {
                out.push('{');
                for (i, (k, v)) in o.iter().enumerate() {
                    if i > 0 {
                        out.push(',');
                    }
                    J::Str(k.clone()).render(out);
                    out.push(':');
                    v.render(out);
                }
                out.push('}');
            }
        }
    }
    pub fn to_string(&self) -> String {
        let mut s = String::new();
        self.render(&mut s);
        s
    }
}

pub fn hex_decode(s: &str) -> Vec<u8> {
    fn nib(c: u8) -> u8 {
        match c {
            b'0'..=b'9' => c - b'0',
            b'a'..=b'f' => c - b'a' + 10,
            _ => 0,
        }
    }
    let b = s.as_bytes();
    let mut out = Vec::with_capacity(b.len() / 2);
    let mut i = 0;
    while i + 1 < b.len() {
        out.push(nib(b[i]) << 4 | nib(b[i + 1]));
        i += 2;
    }
    out
}
