//! Glue between the real flatty types and the type-independent engines.
//!
//! `Shape` is implemented for the library's own types here and for every
//! generated `#[flat]` definition in `zoo_*.rs`.  Engines never see concrete
//! types: they work through `VT` (a table of monomorphised function
//! pointers) and the object-safe `ShapeDyn` / `ShapeDynMut` views.

use crate::model::{Desc, Endian, LenD, Value};
use core::cmp::Ordering;
use core::marker::PhantomData;
use flatty::{
    error::ErrorKind,
    flex, string,
    traits::{FlatBase, FlatDefault, FlatUnsized, FlatValidate},
    vec, Emplacer, Error, Flat, FlatString, FlatVec, FlexVec,
};
use flatty::portable::{Bool, Float, Int};
// The portable scalars are named by their const parameters, not by the `le::`/`be::` aliases: a change that
// makes two aliases the same type must not stop the harness from compiling (C16 judges the aliases by name).
use flatty::vec::Length;

pub fn sub(style: u64, i: u64) -> u64 {
    crate::rng::mix(style ^ (i.wrapping_add(1)).wrapping_mul(0x9e3779b97f4a7c15))
}

/// Continuation that receives a concrete emplacer for `T`.
pub trait Kont<T: Flat + ?Sized> {
    type Out;
    fn call<E: Emplacer<T>>(self, e: E) -> Self::Out;
}

#[derive(Clone, Debug, PartialEq)]
pub struct Probe {
    pub len: usize,
    pub cap: Option<usize>,
    pub remaining: Option<usize>,
    pub is_empty: bool,
    pub is_full: Option<bool>,
    /// number of items seen by walking `iter()` (a different accessor path than `len()`)
    pub iter_count: Option<usize>,
}

#[derive(Clone, Debug)]
pub enum Op {
    /// overwrite a sized sub-object
    Set(Value),
    /// `assign_in_place` on an unsized sub-object
    Assign(Value, u64),
    VPush(Value),
    VPop,
    VPushSlice(Vec<Value>),
    VExtend(Vec<Value>),
    VTruncate(usize),
    VClear,
    VRemove(usize),
    VSwapRemove(usize),
    VResize(usize, Value),
    VSetIdx(usize, Value),
    VIterMutSet(Vec<Value>),
    SPushChar(char),
    SPushStr(String),
    SClear,
    FPush(Value, u64),
    FPushDefault,
    FPop,
    FTruncate(usize),
    FClear,
}

impl Op {
    pub fn name(&self) -> &'static str {
        match self {
            Op::Set(..) => "set",
            Op::Assign(..) => "assign",
            Op::VPush(..) => "push",
            Op::VPop => "pop",
            Op::VPushSlice(..) => "push_slice",
            Op::VExtend(..) => "extend_until_full",
            Op::VTruncate(..) => "truncate",
            Op::VClear => "clear",
            Op::VRemove(..) => "remove",
            Op::VSwapRemove(..) => "swap_remove",
            Op::VResize(..) => "resize",
            Op::VSetIdx(..) => "index_write",
            Op::VIterMutSet(..) => "iter_mut_write",
            Op::SPushChar(..) => "push_char",
            Op::SPushStr(..) => "push_str",
            Op::SClear => "str_clear",
            Op::FPush(..) => "flex_push",
            Op::FPushDefault => "flex_push_default",
            Op::FPop => "flex_pop",
            Op::FTruncate(..) => "flex_truncate",
            Op::FClear => "flex_clear",
        }
    }
}

#[derive(Clone, Debug, PartialEq)]
pub enum OpOut {
    Done,
    Ret(Option<Value>),
    /// the library refused the operation (Err result); text = error description
    Refused(String),
    /// operation does not apply to this node (harness routing problem, never a verdict)
    NotApplicable,
}

pub fn err_text(e: &Error) -> String {
    format!("{:?}@{}", e.kind, e.pos)
}

pub trait Shape: Flat + 'static {
    fn desc() -> Desc;
    fn read(&self) -> Value;
    fn with_emp<K: Kont<Self>>(v: &Value, style: u64, k: K) -> K::Out;
    fn default_emp<K: Kont<Self>>(_k: K) -> Option<K::Out> {
        None
    }
    /// `<Self as Default>::default()` read through the accessors, for sized types that implement `Default`
    fn rust_default() -> Option<Value> {
        None
    }
    /// does the type implement `flatty::Portable`?  (generated definitions only: probed by autoref specialisation, see `PortableProbe`)
    fn impls_portable() -> bool {
        false
    }
    fn n_children(&self) -> usize {
        0
    }
    fn child(&self, _i: u32, _f: &mut dyn FnMut(&dyn ShapeDyn)) -> bool {
        false
    }
    fn child_mut(&mut self, _i: u32, _f: &mut dyn FnMut(&mut dyn ShapeDynMut)) -> bool {
        false
    }
    fn op_self(&mut self, _op: &Op) -> OpOut {
        OpOut::NotApplicable
    }
    fn probe(&self) -> Option<Probe> {
        None
    }
    /// `self == other`, `self.partial_cmp(other)` where `other` is mapped from `other_bytes`.
    fn cmp_with(&self, _other_bytes: &[u8]) -> Option<(bool, Option<Ordering>)> {
        None
    }
    /// private associated constants of generated items
    fn consts() -> Vec<(&'static str, usize)> {
        Vec::new()
    }
}

pub trait SizedShape: Shape + Sized + Clone + PartialEq + PartialOrd {
    fn make(v: &Value) -> Self;
}

pub trait LenShape: SizedShape + Length {
    fn lend() -> LenD;
}

// ---------------------------------------------------------------------------
// ValEmp: an emplacer for any Shape built from a model Value; it delegates to
// the real library emplacer chosen by `style`.

pub struct ValEmp<'a, T: Shape + ?Sized> {
    v: &'a Value,
    style: u64,
    _g: PhantomData<T>,
}
impl<'a, T: Shape + ?Sized> ValEmp<'a, T> {
    pub fn new(v: &'a Value, style: u64) -> Self {
        ValEmp { v, style, _g: PhantomData }
    }
}
struct UncheckedK<'b>(&'b mut [u8]);
impl<'b, T: Shape + ?Sized> Kont<T> for UncheckedK<'b> {
    type Out = Result<&'b mut T, Error>;
    fn call<E: Emplacer<T>>(self, e: E) -> Self::Out {
        unsafe { e.emplace_unchecked(self.0) }
    }
}
unsafe impl<'a, T: Shape + ?Sized> Emplacer<T> for ValEmp<'a, T> {
    unsafe fn emplace_unchecked(self, bytes: &mut [u8]) -> Result<&mut T, Error> {
        T::with_emp(self.v, self.style, UncheckedK(bytes))
    }
}

// Continuations used by the vtable / ops.
pub struct NewK<'b>(pub &'b mut [u8]);
impl<'b, T: Shape + ?Sized> Kont<T> for NewK<'b> {
    type Out = Result<&'b mut T, Error>;
    fn call<E: Emplacer<T>>(self, e: E) -> Self::Out {
        T::new_in_place(self.0, e)
    }
}
pub struct AssignK<'b, T: ?Sized>(pub &'b mut T);
impl<'b, T: Shape + ?Sized> Kont<T> for AssignK<'b, T> {
    type Out = Result<(), Error>;
    fn call<E: Emplacer<T>>(self, e: E) -> Self::Out {
        self.0.assign_in_place(e).map(|_| ())
    }
}
pub struct PushK<'b, T: Flat + ?Sized, L: Flat + Length>(pub &'b mut FlexVec<T, L>);
impl<'b, T: Shape + ?Sized, L: LenShape> Kont<T> for PushK<'b, T, L> {
    type Out = Result<(), Error>;
    fn call<E: Emplacer<T>>(self, e: E) -> Self::Out {
        self.0.push(e).map(|_| ())
    }
}

pub struct ProbeK;
impl<T: Shape + ?Sized> Kont<T> for ProbeK {
    type Out = ();
    fn call<E: Emplacer<T>>(self, _e: E) -> Self::Out {}
}

pub fn assign_op<T: Shape + ?Sized>(this: &mut T, op: &Op) -> OpOut {
    match op {
        Op::Assign(v, style) => match T::with_emp(v, *style, AssignK(this)) {
            Ok(()) => OpOut::Done,
            Err(e) => OpOut::Refused(err_text(&e)),
        },
        _ => OpOut::NotApplicable,
    }
}

// ---------------------------------------------------------------------------
// object-safe views

pub trait ShapeDyn {
    fn desc(&self) -> Desc;
    fn read(&self) -> Value;
    fn size(&self) -> usize;
    fn addr(&self) -> usize;
    fn bytes(&self) -> &[u8];
    fn size_of_val(&self) -> usize;
    fn align_of_val(&self) -> usize;
    fn probe(&self) -> Option<Probe>;
    fn n_children(&self) -> usize;
    fn child(&self, i: u32, f: &mut dyn FnMut(&dyn ShapeDyn)) -> bool;
    fn revalidate(&self) -> Result<(), Error>;
    fn remap(&self, f: &mut dyn FnMut(&dyn ShapeDyn)) -> Result<(), Error>;
    fn cmp_with(&self, other_bytes: &[u8]) -> Option<(bool, Option<Ordering>)>;
}
pub trait ShapeDynMut: ShapeDyn {
    fn op_self(&mut self, op: &Op) -> OpOut;
    fn child_mut(&mut self, i: u32, f: &mut dyn FnMut(&mut dyn ShapeDynMut)) -> bool;
    fn as_dyn(&self) -> &dyn ShapeDyn;
}

pub struct RefH<'a, T: ?Sized>(pub &'a T);
pub struct MutH<'a, T: ?Sized>(pub &'a mut T);

macro_rules! impl_dyn {
    ($H:ident) => {
        impl<'a, T: Shape + ?Sized> ShapeDyn for $H<'a, T> {
            fn desc(&self) -> Desc {
                T::desc()
            }
            fn read(&self) -> Value {
                (&*self.0).read()
            }
            fn size(&self) -> usize {
                FlatBase::size(&*self.0)
            }
            fn addr(&self) -> usize {
                (&*self.0) as *const T as *const u8 as usize
            }
            fn bytes(&self) -> &[u8] {
                (&*self.0).as_bytes()
            }
            fn size_of_val(&self) -> usize {
                core::mem::size_of_val(&*self.0)
            }
            fn align_of_val(&self) -> usize {
                core::mem::align_of_val(&*self.0)
            }
            fn probe(&self) -> Option<Probe> {
                (&*self.0).probe()
            }
            fn n_children(&self) -> usize {
                (&*self.0).n_children()
            }
            fn child(&self, i: u32, f: &mut dyn FnMut(&dyn ShapeDyn)) -> bool {
                (&*self.0).child(i, f)
            }
            fn revalidate(&self) -> Result<(), Error> {
                T::validate((&*self.0).as_bytes())
            }
            fn remap(&self, f: &mut dyn FnMut(&dyn ShapeDyn)) -> Result<(), Error> {
                let t = T::from_bytes((&*self.0).as_bytes())?;
                f(&RefH(t));
                Ok(())
            }
            fn cmp_with(&self, other_bytes: &[u8]) -> Option<(bool, Option<Ordering>)> {
                (&*self.0).cmp_with(other_bytes)
            }
        }
    };
}
impl_dyn!(RefH);
impl_dyn!(MutH);

impl<'a, T: Shape + ?Sized> ShapeDynMut for MutH<'a, T> {
    fn op_self(&mut self, op: &Op) -> OpOut {
        self.0.op_self(op)
    }
    fn child_mut(&mut self, i: u32, f: &mut dyn FnMut(&mut dyn ShapeDynMut)) -> bool {
        self.0.child_mut(i, f)
    }
    fn as_dyn(&self) -> &dyn ShapeDyn {
        self
    }
}

/// Apply `op` to the node at `path` below `root`.
pub fn apply_at(root: &mut dyn ShapeDynMut, path: &[u32], op: &Op) -> OpOut {
    match path.split_first() {
        None => root.op_self(op),
        Some((i, rest)) => {
            let mut out = OpOut::NotApplicable;
            root.child_mut(*i, &mut |c| out = apply_at(c, rest, op));
            out
        }
    }
}

/// Visit the node at `path` below `root`.
pub fn visit_at(root: &dyn ShapeDyn, path: &[u32], f: &mut dyn FnMut(&dyn ShapeDyn)) -> bool {
    match path.split_first() {
        None => {
            f(root);
            true
        }
        Some((i, rest)) => {
            let mut ok = false;
            root.child(*i, &mut |c| ok = visit_at(c, rest, f));
            ok
        }
    }
}

#[derive(Clone, Debug)]
pub struct AddrRec {
    pub path: Vec<u32>,
    pub addr: usize,
    pub size_of_val: usize,
    pub kind: &'static str,
}

/// Addresses of every reachable sub-object (through the safe accessors only).
pub fn collect_addrs(root: &dyn ShapeDyn, path: &mut Vec<u32>, out: &mut Vec<AddrRec>) {
    out.push(AddrRec { path: path.clone(), addr: root.addr(), size_of_val: root.size_of_val(), kind: root.desc().kind() });
    let n = root.n_children();
    for i in 0..n.min(64) {
        path.push(i as u32);
        root.child(i as u32, &mut |c| collect_addrs(c, path, out));
        path.pop();
    }
}

// ---------------------------------------------------------------------------
// leaf impls

macro_rules! leaf_sized_common {
    () => {
        fn read(&self) -> Value {
            Self::to_value(self)
        }
        fn with_emp<K: Kont<Self>>(v: &Value, _style: u64, k: K) -> K::Out {
            k.call(<Self as SizedShape>::make(v))
        }
        fn default_emp<K: Kont<Self>>(k: K) -> Option<K::Out> {
            Some(k.call(<Self as FlatDefault>::default_emplacer()))
        }
        fn rust_default() -> Option<Value> {
            Some(<Self as Default>::default().read())
        }
        fn op_self(&mut self, op: &Op) -> OpOut {
            match op {
                Op::Set(v) => {
                    *self = <Self as SizedShape>::make(v);
                    OpOut::Done
                }
                Op::Assign(..) => assign_op(self, op),
                _ => OpOut::NotApplicable,
            }
        }
    };
}

trait ToValue {
    fn to_value(&self) -> Value;
}

macro_rules! impl_native_int {
    ($t:ty, $signed:expr) => {
        impl ToValue for $t {
            fn to_value(&self) -> Value {
                Value::U((*self as u128) & mask(core::mem::size_of::<$t>()))
            }
        }
        impl Shape for $t {
            fn desc() -> Desc {
                Desc::Int {
                    size: core::mem::size_of::<$t>(),
                    align: core::mem::size_of::<$t>(),
                    endian: Endian::Native,
                    signed: $signed,
                }
            }
            leaf_sized_common!();
        }
        impl SizedShape for $t {
            fn make(v: &Value) -> Self {
                v.u() as $t
            }
        }
    };
}
fn mask(size: usize) -> u128 {
    if size >= 16 {
        u128::MAX
    } else {
        (1u128 << (8 * size)) - 1
    }
}
impl_native_int!(u8, false);
impl_native_int!(u16, false);
impl_native_int!(u32, false);
impl_native_int!(u64, false);
impl_native_int!(u128, false);
impl_native_int!(usize, false);
impl_native_int!(i8, true);
impl_native_int!(i16, true);
impl_native_int!(i32, true);
impl_native_int!(i64, true);
impl_native_int!(i128, true);
impl_native_int!(isize, true);

macro_rules! impl_native_float {
    ($t:ty, $bits:ty) => {
        impl ToValue for $t {
            fn to_value(&self) -> Value {
                Value::U(self.to_bits() as u128)
            }
        }
        impl Shape for $t {
            fn desc() -> Desc {
                Desc::Float { size: core::mem::size_of::<$t>(), align: core::mem::size_of::<$t>(), endian: Endian::Native }
            }
            leaf_sized_common!();
        }
        impl SizedShape for $t {
            fn make(v: &Value) -> Self {
                <$t>::from_bits(v.u() as $bits)
            }
        }
    };
}
impl_native_float!(f32, u32);
impl_native_float!(f64, u64);

macro_rules! impl_portable_int {
    ($t:ty, $native:ty, $endian:expr, $signed:expr) => {
        impl ToValue for $t {
            fn to_value(&self) -> Value {
                Value::U((<$native>::from(*self) as u128) & mask(core::mem::size_of::<$native>()))
            }
        }
        impl Shape for $t {
            fn desc() -> Desc {
                Desc::Int { size: core::mem::size_of::<$native>(), align: 1, endian: $endian, signed: $signed }
            }
            leaf_sized_common!();
        }
        impl SizedShape for $t {
            fn make(v: &Value) -> Self {
                <$t>::from(v.u() as $native)
            }
        }
    };
}
impl_portable_int!(Int<false, 2, false>, u16, Endian::Le, false);
impl_portable_int!(Int<false, 4, false>, u32, Endian::Le, false);
impl_portable_int!(Int<false, 8, false>, u64, Endian::Le, false);
impl_portable_int!(Int<false, 2, true>, i16, Endian::Le, true);
impl_portable_int!(Int<false, 4, true>, i32, Endian::Le, true);
impl_portable_int!(Int<false, 8, true>, i64, Endian::Le, true);
impl_portable_int!(Int<true, 2, false>, u16, Endian::Be, false);
impl_portable_int!(Int<true, 4, false>, u32, Endian::Be, false);
impl_portable_int!(Int<true, 8, false>, u64, Endian::Be, false);
impl_portable_int!(Int<true, 2, true>, i16, Endian::Be, true);
impl_portable_int!(Int<true, 4, true>, i32, Endian::Be, true);
impl_portable_int!(Int<true, 8, true>, i64, Endian::Be, true);

macro_rules! impl_portable_float {
    ($t:ty, $native:ty, $bits:ty, $endian:expr) => {
        impl ToValue for $t {
            fn to_value(&self) -> Value {
                Value::U(<$native>::from(*self).to_bits() as u128)
            }
        }
        impl Shape for $t {
            fn desc() -> Desc {
                Desc::Float { size: core::mem::size_of::<$native>(), align: 1, endian: $endian }
            }
            leaf_sized_common!();
        }
        impl SizedShape for $t {
            fn make(v: &Value) -> Self {
                <$t>::from(<$native>::from_bits(v.u() as $bits))
            }
        }
    };
}
impl_portable_float!(Float<false, 4>, f32, u32, Endian::Le);
impl_portable_float!(Float<false, 8>, f64, u64, Endian::Le);
impl_portable_float!(Float<true, 4>, f32, u32, Endian::Be);
impl_portable_float!(Float<true, 8>, f64, u64, Endian::Be);

impl ToValue for Bool {
    fn to_value(&self) -> Value {
        Value::U(bool::from(*self) as u128)
    }
}
impl Shape for Bool {
    fn desc() -> Desc {
        Desc::Bool
    }
    leaf_sized_common!();
}
impl SizedShape for Bool {
    fn make(v: &Value) -> Self {
        Bool::from(v.u() != 0)
    }
}

impl ToValue for () {
    fn to_value(&self) -> Value {
        Value::Unit
    }
}
impl Shape for () {
    fn desc() -> Desc {
        Desc::Unit
    }
    leaf_sized_common!();
}
impl SizedShape for () {
    fn make(_: &Value) -> Self {}
}

impl<T: Shape + Sized> ToValue for PhantomData<T> {
    fn to_value(&self) -> Value {
        Value::Unit
    }
}
impl<T: Shape + Sized> Shape for PhantomData<T> {
    fn desc() -> Desc {
        Desc::Unit
    }
    leaf_sized_common!();
}
impl<T: Shape + Sized> SizedShape for PhantomData<T> {
    fn make(_: &Value) -> Self {
        PhantomData
    }
}

macro_rules! impl_len {
    ($t:ty, $size:expr, $align:expr, $endian:expr) => {
        impl LenShape for $t {
            fn lend() -> LenD {
                LenD { size: $size, align: $align, endian: $endian }
            }
        }
    };
}
impl_len!(u8, 1, 1, Endian::Native);
impl_len!(u16, 2, 2, Endian::Native);
impl_len!(u32, 4, 4, Endian::Native);
impl_len!(u64, 8, 8, Endian::Native);
impl_len!(usize, core::mem::size_of::<usize>(), core::mem::size_of::<usize>(), Endian::Native);
impl_len!(Int<false, 2, false>, 2, 1, Endian::Le);
impl_len!(Int<false, 4, false>, 4, 1, Endian::Le);
impl_len!(Int<false, 8, false>, 8, 1, Endian::Le);
impl_len!(Int<true, 2, false>, 2, 1, Endian::Be);
impl_len!(Int<true, 4, false>, 4, 1, Endian::Be);
impl_len!(Int<true, 8, false>, 8, 1, Endian::Be);

// arrays
impl<T: SizedShape, const N: usize> Shape for [T; N] {
    fn desc() -> Desc {
        Desc::Array(Box::new(T::desc()), N)
    }
    fn read(&self) -> Value {
        Value::Arr(self.iter().map(|x| x.read()).collect())
    }
    fn with_emp<K: Kont<Self>>(v: &Value, _style: u64, k: K) -> K::Out {
        k.call(<Self as SizedShape>::make(v))
    }
    fn n_children(&self) -> usize {
        N
    }
    fn child(&self, i: u32, f: &mut dyn FnMut(&dyn ShapeDyn)) -> bool {
        match self.get(i as usize) {
            Some(x) => {
                f(&RefH(x));
                true
            }
            None => false,
        }
    }
    fn child_mut(&mut self, i: u32, f: &mut dyn FnMut(&mut dyn ShapeDynMut)) -> bool {
        match self.get_mut(i as usize) {
            Some(x) => {
                f(&mut MutH(x));
                true
            }
            None => false,
        }
    }
    fn op_self(&mut self, op: &Op) -> OpOut {
        match op {
            Op::Set(v) => {
                *self = <Self as SizedShape>::make(v);
                OpOut::Done
            }
            Op::Assign(..) => assign_op(self, op),
            _ => OpOut::NotApplicable,
        }
    }
}
impl<T: SizedShape, const N: usize> SizedShape for [T; N] {
    fn make(v: &Value) -> Self {
        let f = v.fields();
        core::array::from_fn(|i| T::make(&f[i]))
    }
}

// ---------------------------------------------------------------------------
// FlatVec

fn arr_of<T: SizedShape, const N: usize>(it: &[Value]) -> [T; N] {
    core::array::from_fn(|i| T::make(&it[i]))
}

impl<T: SizedShape, L: LenShape> Shape for FlatVec<T, L> {
    fn desc() -> Desc {
        Desc::Vec { elem: Box::new(T::desc()), len: L::lend() }
    }
    fn read(&self) -> Value {
        if core::mem::size_of::<T>() == 0 && self.len() > crate::model::ZST_READ_CAP {
            // zero-sized elements: first elements plus the count (same convention as the model)
            let mut v: Vec<Value> = self.as_slice().iter().take(crate::model::ZST_READ_CAP).map(|x| x.read()).collect();
            v.push(Value::U(self.len() as u128));
            return Value::Seq(v);
        }
        Value::Seq(self.as_slice().iter().map(|x| x.read()).collect())
    }
    fn with_emp<K: Kont<Self>>(v: &Value, style: u64, k: K) -> K::Out {
        let it = v.fields();
        match (style % 3, it.len()) {
            (0, 0) => k.call(vec::FromArray::<T, 0>([])),
            (0, 1) => k.call(vec::FromArray([T::make(&it[0])])),
            (0, 2) => k.call(vec::FromArray([T::make(&it[0]), T::make(&it[1])])),
            (0, 3) => k.call(vec::FromArray([T::make(&it[0]), T::make(&it[1]), T::make(&it[2])])),
            (0, 4) => k.call(vec::FromArray([T::make(&it[0]), T::make(&it[1]), T::make(&it[2]), T::make(&it[3])])),
            (0, 5) => k.call(vec::FromArray(arr_of::<T, 5>(it))),
            (0, 8) => k.call(vec::FromArray(arr_of::<T, 8>(it))),
            // arrays longer than a one-byte length type can count
            (0, 256) => k.call(vec::FromArray(arr_of::<T, 256>(it))),
            (0, 257) => k.call(vec::FromArray(arr_of::<T, 257>(it))),
            (2, 0) => k.call(vec::Empty),
            (2, _) => {
                let items: Vec<T> = it.iter().map(|x| T::make(x)).collect();
                k.call(vec::FromIterator(items.into_iter()))
            }
            _ => k.call(vec::FromIterator(it.iter().map(|x| T::make(x)))),
        }
    }
    fn default_emp<K: Kont<Self>>(k: K) -> Option<K::Out> {
        Some(k.call(<Self as FlatDefault>::default_emplacer()))
    }
    fn n_children(&self) -> usize {
        self.len()
    }
    fn child(&self, i: u32, f: &mut dyn FnMut(&dyn ShapeDyn)) -> bool {
        match self.as_slice().get(i as usize) {
            Some(x) => {
                f(&RefH(x));
                true
            }
            None => false,
        }
    }
    fn child_mut(&mut self, i: u32, f: &mut dyn FnMut(&mut dyn ShapeDynMut)) -> bool {
        match self.as_mut_slice().get_mut(i as usize) {
            Some(x) => {
                f(&mut MutH(x));
                true
            }
            None => false,
        }
    }
    fn probe(&self) -> Option<Probe> {
        Some(Probe {
            len: self.len(),
            cap: Some(self.capacity()),
            remaining: Some(self.remaining()),
            is_empty: self.is_empty(),
            is_full: Some(self.is_full()),
            iter_count: None,
        })
    }
    fn cmp_with(&self, other_bytes: &[u8]) -> Option<(bool, Option<Ordering>)> {
        let o = Self::from_bytes(other_bytes).ok()?;
        Some((self == o, self.partial_cmp(o)))
    }
    fn op_self(&mut self, op: &Op) -> OpOut {
        match op {
            Op::Assign(..) => assign_op(self, op),
            Op::VPush(v) => match self.push(T::make(v)) {
                Ok(()) => OpOut::Done,
                Err(back) => OpOut::Refused(format!("full:{}", back.read().short())),
            },
            Op::VPop => OpOut::Ret(self.pop().map(|x| x.read())),
            Op::VPushSlice(vs) => {
                let items: Vec<T> = vs.iter().map(|x| T::make(x)).collect();
                match self.push_slice(&items) {
                    Ok(()) => OpOut::Done,
                    Err(_) => OpOut::Refused("full".into()),
                }
            }
            Op::VExtend(vs) => {
                self.extend_until_full(vs.iter().map(|x| T::make(x)));
                OpOut::Done
            }
            Op::VTruncate(n) => {
                self.truncate(*n);
                OpOut::Done
            }
            Op::VClear => {
                self.clear();
                OpOut::Done
            }
            Op::VRemove(i) => OpOut::Ret(Some(self.remove(*i).read())),
            Op::VSwapRemove(i) => OpOut::Ret(Some(self.swap_remove(*i).read())),
            Op::VResize(n, v) => {
                self.resize(*n, T::make(v));
                OpOut::Done
            }
            Op::VSetIdx(i, v) => {
                self[*i] = T::make(v);
                OpOut::Done
            }
            Op::VIterMutSet(vs) => {
                for (slot, v) in self.iter_mut().zip(vs.iter()) {
                    *slot = T::make(v);
                }
                OpOut::Done
            }
            _ => OpOut::NotApplicable,
        }
    }
}

// ---------------------------------------------------------------------------
// FlatString

impl<L: LenShape> Shape for FlatString<L> {
    fn desc() -> Desc {
        Desc::Str { len: L::lend() }
    }
    fn read(&self) -> Value {
        Value::Str(self.as_str().to_string())
    }
    fn with_emp<K: Kont<Self>>(v: &Value, style: u64, k: K) -> K::Out {
        let s = match v {
            Value::Str(s) => s.as_str(),
            _ => panic!("harness: string value expected"),
        };
        match (style % 3, s.len()) {
            (2, 0) => k.call(string::Empty),
            (1, _) => k.call(string::FromStr(s.to_string())),
            _ => k.call(string::FromStr(s)),
        }
    }
    fn default_emp<K: Kont<Self>>(k: K) -> Option<K::Out> {
        Some(k.call(<Self as FlatDefault>::default_emplacer()))
    }
    fn probe(&self) -> Option<Probe> {
        Some(Probe {
            len: self.len(),
            cap: Some(self.capacity()),
            remaining: Some(self.remaining()),
            is_empty: self.is_empty(),
            is_full: Some(self.is_full()),
            iter_count: None,
        })
    }
    fn cmp_with(&self, other_bytes: &[u8]) -> Option<(bool, Option<Ordering>)> {
        let o = Self::from_bytes(other_bytes).ok()?;
        Some((self == o, self.partial_cmp(o)))
    }
    fn op_self(&mut self, op: &Op) -> OpOut {
        match op {
            Op::Assign(..) => assign_op(self, op),
            Op::SPushChar(c) => match self.push(*c) {
                Ok(()) => OpOut::Done,
                Err(_) => OpOut::Refused("full".into()),
            },
            Op::SPushStr(s) => match self.push_str(s) {
                Ok(()) => OpOut::Done,
                Err(_) => OpOut::Refused("full".into()),
            },
            Op::SClear => {
                self.clear();
                OpOut::Done
            }
            _ => OpOut::NotApplicable,
        }
    }
}

// ---------------------------------------------------------------------------
// FlexVec

impl<T: Shape + ?Sized, L: LenShape> Shape for FlexVec<T, L> {
    fn desc() -> Desc {
        Desc::Flex { item: Box::new(T::desc()), len: L::lend() }
    }
    fn read(&self) -> Value {
        Value::Seq(self.iter().map(|x| x.read()).collect())
    }
    fn with_emp<K: Kont<Self>>(v: &Value, style: u64, k: K) -> K::Out {
        let it = v.fields();
        if it.is_empty() && style % 2 == 1 {
            return k.call(flex::Empty);
        }
        let st = style;
        k.call(flex::FromIterator::<T, _, _>::new(
            it.iter().enumerate().map(move |(i, x)| ValEmp::<T>::new(x, sub(st, i as u64))),
        ))
    }
    fn default_emp<K: Kont<Self>>(k: K) -> Option<K::Out> {
        Some(k.call(<Self as FlatDefault>::default_emplacer()))
    }
    fn n_children(&self) -> usize {
        self.len()
    }
    fn child(&self, i: u32, f: &mut dyn FnMut(&dyn ShapeDyn)) -> bool {
        match self.iter().nth(i as usize) {
            Some(x) => {
                f(&RefH(x));
                true
            }
            None => false,
        }
    }
    fn child_mut(&mut self, i: u32, f: &mut dyn FnMut(&mut dyn ShapeDynMut)) -> bool {
        match self.iter_mut().nth(i as usize) {
            Some(x) => {
                f(&mut MutH(x));
                true
            }
            None => false,
        }
    }
    fn probe(&self) -> Option<Probe> {
        Some(Probe { len: self.len(), cap: None, remaining: None, is_empty: self.is_empty(), is_full: None, iter_count: Some(self.iter().count()) })
    }
    fn op_self(&mut self, op: &Op) -> OpOut {
        match op {
            Op::Assign(..) => assign_op(self, op),
            Op::FPush(v, style) => match T::with_emp(v, *style, PushK(self)) {
                Ok(()) => OpOut::Done,
                Err(e) => OpOut::Refused(err_text(&e)),
            },
            Op::FPushDefault => match T::default_emp(PushK(self)) {
                Some(Ok(())) => OpOut::Done,
                Some(Err(e)) => OpOut::Refused(err_text(&e)),
                None => OpOut::NotApplicable,
            },
            Op::FPop => match self.pop() {
                Ok(()) => OpOut::Done,
                Err(_) => OpOut::Refused("empty".into()),
            },
            Op::FTruncate(n) => {
                self.truncate(*n);
                OpOut::Done
            }
            Op::FClear => {
                self.clear();
                OpOut::Done
            }
            _ => OpOut::NotApplicable,
        }
    }
}

// ---------------------------------------------------------------------------
// type-erased table

pub type ViewFn<'x> = &'x mut dyn FnMut(&dyn ShapeDyn);
pub type ViewMutFn<'x> = &'x mut dyn FnMut(&mut dyn ShapeDynMut);

/// Autoref-specialisation probe: `(&PortableProbe::<X>(PhantomData)).impls_portable()` is `true` iff the concrete
/// type `X` implements `flatty::Portable` (the `ProbeYes` method needs one auto-reference less than `ProbeNo`'s).
pub struct PortableProbe<T: ?Sized>(pub core::marker::PhantomData<T>);
pub trait ProbeYes {
    fn impls_portable(&self) -> bool {
        true
    }
}
impl<T: flatty::Portable + ?Sized> ProbeYes for PortableProbe<T> {}
pub trait ProbeNo {
    fn impls_portable(&self) -> bool {
        false
    }
}
impl<T: ?Sized> ProbeNo for &PortableProbe<T> {}

/// The probe applied to concrete library types (a generic `impl Shape` cannot ask it): name, implements `Portable`, `ALIGN`.
pub fn library_portable_probes() -> Vec<(&'static str, bool, usize)> {
    use flatty::portable::{be, le};
    macro_rules! probe {
        ($($t:ty),* $(,)?) => { vec![$((stringify!($t), (&PortableProbe::<$t>(PhantomData)).impls_portable(), <$t as FlatBase>::ALIGN)),*] };
    }
    probe!(
        u8, i8, u16, u32, u64, i32, usize, f32, f64, (), Bool,
        le::U16, le::I32, le::U64, be::U16, be::I64, le::F32, be::F64,
        [u8; 3], [u16; 2], [le::U16; 2], [Bool; 4], PhantomData<u16>, PhantomData<le::U16>,
        FlatString<u8>, FlatString<u16>, FlatString<u32>, FlatString<u64>, FlatString<usize>, FlatString<le::U16>, FlatString<be::U64>,
        FlatVec<u8, u8>, FlatVec<u8, u16>, FlatVec<u16, u8>, FlatVec<Bool, u32>, FlatVec<le::U16, u16>, FlatVec<le::U16, le::U32>, FlatVec<Bool, be::U16>, FlatVec<[u8; 3], le::U16>,
        FlexVec<FlatString<u16>, le::U16>, FlexVec<FlatString<le::U16>, u16>, FlexVec<FlatString<le::U16>, le::U16>, FlexVec<u32, le::U16>, FlexVec<le::U32, be::U16>, FlexVec<FlatVec<u8, u32>, u8>,
    )
}

pub struct VT {
    pub name: &'static str,
    pub desc: Desc,
    pub align: usize,
    pub min_size: usize,
    pub static_size: Option<usize>,
    pub consts: Vec<(&'static str, usize)>,
    pub is_msg: bool,
    pub default_probe: bool,
    pub rust_default: fn() -> Option<Value>,
    pub impls_portable: bool,
    pub validate: fn(&[u8]) -> Result<(), Error>,
    pub from_bytes: fn(&[u8], ViewFn) -> Result<(), Error>,
    pub from_mut_bytes: fn(&mut [u8], ViewMutFn) -> Result<(), Error>,
    pub new_in_place: fn(&mut [u8], &Value, u64, ViewMutFn) -> Result<(), Error>,
    pub default_in_place: fn(&mut [u8], ViewMutFn) -> Option<Result<(), Error>>,
    pub wrap_new: fn(&mut [u8], &Value, u64, u8, ViewMutFn) -> Result<(), Error>,
    pub wrap_default: fn(&mut [u8], u8, ViewMutFn) -> Option<Result<(), Error>>,
    pub wrap_from: fn(&[u8], ViewFn) -> Result<(), Error>,
    pub io: Option<crate::iofns::IoVT>,
}

fn vt_validate<T: Shape + ?Sized>(b: &[u8]) -> Result<(), Error> {
    T::validate(b)
}
fn vt_from_bytes<T: Shape + ?Sized>(b: &[u8], f: ViewFn) -> Result<(), Error> {
    let t = T::from_bytes(b)?;
    f(&RefH(t));
    Ok(())
}
fn vt_from_mut_bytes<T: Shape + ?Sized>(b: &mut [u8], f: ViewMutFn) -> Result<(), Error> {
    let t = T::from_mut_bytes(b)?;
    f(&mut MutH(t));
    Ok(())
}
fn vt_new_in_place<T: Shape + ?Sized>(b: &mut [u8], v: &Value, style: u64, f: ViewMutFn) -> Result<(), Error> {
    let t = T::with_emp(v, style, NewK(b))?;
    f(&mut MutH(t));
    Ok(())
}
fn vt_default_in_place<T: Shape + ?Sized>(b: &mut [u8], f: ViewMutFn) -> Option<Result<(), Error>> {
    match T::default_emp(NewK(b)) {
        None => None,
        Some(Err(e)) => Some(Err(e)),
        Some(Ok(t)) => {
            f(&mut MutH(t));
            Some(Ok(()))
        }
    }
}

/// `FlatWrap::new_in_place` / `default_in_place` over `&mut [u8]`; the wrapper returned by the
/// library is inspected as it is (it is NOT re-validated: that would hide an inconsistent value).
struct WrapK<'b, 'f, 'g>(&'b mut [u8], ViewMutFn<'f>, PhantomData<&'g ()>);
impl<'b, 'f, 'g, T: Shape + ?Sized> Kont<T> for WrapK<'b, 'f, 'g> {
    type Out = Result<(), Error>;
    fn call<E: Emplacer<T>>(self, e: E) -> Self::Out {
        let mut w = flatty::FlatWrap::<T, &mut [u8]>::new_in_place(self.0, e)?;
        (self.1)(&mut MutH(&mut *w));
        Ok(())
    }
}
fn vt_wrap_new<T: Shape + ?Sized>(b: &mut [u8], v: &Value, style: u64, _kind: u8, f: ViewMutFn) -> Result<(), Error> {
    T::with_emp(v, style, WrapK(b, f, PhantomData))
}
fn vt_wrap_default<T: Shape + ?Sized>(b: &mut [u8], _kind: u8, f: ViewMutFn) -> Option<Result<(), Error>> {
    T::default_emp(WrapK(b, f, PhantomData))
}
fn vt_wrap_from<T: Shape + ?Sized>(b: &[u8], f: ViewFn) -> Result<(), Error> {
    let w = flatty::FlatWrap::<T, &[u8]>::from_wrapped_bytes(b)?;
    f(&RefH(&*w));
    Ok(())
}

pub trait MaybeSized {
    fn static_size() -> Option<usize>;
}

pub fn vt<T: Shape + ?Sized>(name: &'static str, static_size: Option<usize>) -> VT {
    VT {
        name,
        desc: T::desc(),
        align: T::ALIGN,
        min_size: T::MIN_SIZE,
        static_size,
        consts: T::consts(),
        is_msg: false,
        default_probe: T::default_emp(ProbeK).is_some(),
        rust_default: T::rust_default,
        impls_portable: T::impls_portable(),
        validate: vt_validate::<T>,
        from_bytes: vt_from_bytes::<T>,
        from_mut_bytes: vt_from_mut_bytes::<T>,
        new_in_place: vt_new_in_place::<T>,
        default_in_place: vt_default_in_place::<T>,
        wrap_new: vt_wrap_new::<T>,
        wrap_default: vt_wrap_default::<T>,
        wrap_from: vt_wrap_from::<T>,
        io: None,
    }
}
pub fn vt_sized<T: SizedShape>(name: &'static str) -> VT {
    vt::<T>(name, Some(<T as flatty::FlatSized>::SIZE))
}
pub fn vt_msg<T: Shape + ?Sized>(name: &'static str, static_size: Option<usize>) -> VT {
    let mut v = vt::<T>(name, static_size);
    v.is_msg = true;
    v.io = Some(crate::iofns::io_vt::<T>());
    v
}

pub fn kind_name(k: &ErrorKind) -> &'static str {
    match k {
        ErrorKind::InsufficientSize => "InsufficientSize",
        ErrorKind::BadAlign => "BadAlign",
        ErrorKind::InvalidEnumTag => "InvalidEnumTag",
        ErrorKind::InvalidData => "InvalidData",
        ErrorKind::Other => "Other",
    }
}
