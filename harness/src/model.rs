//! Reference model of the documented flatty wire format.
//!
//! Nothing in this file imports flatty: layouts are computed with the plain
//! C rule, values are encoded / decoded byte by byte.  It is the oracle the
//! engines compare the real library against.

use crate::rng::Rng;

#[derive(Clone, Copy, Debug, PartialEq, Eq, Hash)]
pub enum Endian {
    Native,
    Le,
    Be,
}

#[derive(Clone, Copy, Debug, PartialEq, Eq, Hash)]
pub struct LenD {
    pub size: usize,
    pub align: usize,
    pub endian: Endian,
}

impl LenD {
    pub fn max(&self) -> u128 {
        if self.size >= 16 {
            u128::MAX
        } else {
            (1u128 << (8 * self.size)) - 1
        }
    }
    /// Largest value usable as a count on this host (usize-clamped).
    pub fn max_usize(&self) -> usize {
        let m = self.max();
        if m > usize::MAX as u128 {
            usize::MAX
        } else {
            m as usize
        }
    }
}

#[derive(Clone, Debug, PartialEq)]
pub enum Desc {
    Int { size: usize, align: usize, endian: Endian, signed: bool },
    Float { size: usize, align: usize, endian: Endian },
    /// `()` and `PhantomData<T>`: size 0, align 1.
    Unit,
    Bool,
    Array(Box<Desc>, usize),
    Struct { name: &'static str, fields: Vec<Desc>, sized: bool, default: bool, portable: bool },
    Enum { name: &'static str, tag: usize, variants: Vec<Vec<Desc>>, sized: bool, default: Option<usize>, portable: bool },
    Vec { elem: Box<Desc>, len: LenD },
    Str { len: LenD },
    Flex { item: Box<Desc>, len: LenD },
}

#[derive(Clone, Debug, PartialEq)]
pub enum Value {
    /// Integers (two's complement, truncated to the width), floats (raw bits), Bool (0/1).
    U(u128),
    Unit,
    Arr(Vec<Value>),
    Struct(Vec<Value>),
    Var(usize, Vec<Value>),
    Seq(Vec<Value>),
    Str(String),
}

impl Value {
    pub fn fields(&self) -> &[Value] {
        match self {
            Value::Struct(f) | Value::Arr(f) | Value::Seq(f) | Value::Var(_, f) => f,
            _ => &[],
        }
    }
    pub fn u(&self) -> u128 {
        match self {
            Value::U(x) => *x,
            _ => panic!("harness: Value::u on {:?}", self),
        }
    }
    /// Debug rendering cut after about 300 bytes.  The formatter is stopped once the limit is reached, so the cost
    /// does not grow with the size of the value (it matters under the interpreters).
    pub fn short(&self) -> String {
        struct Cut(String);
        impl std::fmt::Write for Cut {
            fn write_str(&mut self, s: &str) -> std::fmt::Result {
                self.0.push_str(s);
                if self.0.len() > 300 {
                    Err(std::fmt::Error)
                } else {
                    Ok(())
                }
            }
        }
        let mut w = Cut(String::new());
        let cut = std::fmt::write(&mut w, format_args!("{:?}", self)).is_err();
        let s = w.0;
        if cut || s.len() > 300 {
            let mut k = 300.min(s.len());
            while !s.is_char_boundary(k) {
                k -= 1;
            }
            format!("{}…", &s[..k])
        } else {
            s
        }
    }
    /// Structural hash (stands in for hashing the Debug rendering).
    pub fn hash64(&self) -> u64 {
        use crate::rng::{hash_str, mix};
        fn seq(tag: u64, f: &[Value]) -> u64 {
            let mut h = mix(tag ^ (f.len() as u64) << 8);
            for v in f {
                h = mix(h ^ v.hash64());
            }
            h
        }
        match self {
            Value::U(x) => mix(1 ^ mix(*x as u64) ^ mix((*x >> 64) as u64).rotate_left(17)),
            Value::Unit => mix(2),
            Value::Arr(f) => seq(3, f),
            Value::Struct(f) => seq(4, f),
            Value::Var(t, f) => seq(5 ^ ((*t as u64) << 32), f),
            Value::Seq(f) => seq(6, f),
            Value::Str(s) => mix(7 ^ hash_str(s)),
        }
    }
}

pub const ZST_READ_CAP: usize = 64;

pub fn ceil_to(x: usize, m: usize) -> usize {
    if m == 0 {
        x
    } else {
        x.div_ceil(m) * m
    }
}
pub fn floor_to(x: usize, m: usize) -> usize {
    if m == 0 {
        x
    } else {
        (x / m) * m
    }
}

/// repr(C) struct: offsets of the fields, end of the last field, alignment.
pub fn c_struct(fields: &[Desc]) -> (Vec<usize>, usize, usize) {
    let mut offs = Vec::with_capacity(fields.len());
    let mut pos = 0usize;
    let mut al = 1usize;
    for f in fields {
        let a = f.align();
        al = al.max(a);
        pos = ceil_to(pos, a);
        offs.push(pos);
        if f.is_sized() {
            pos += f.size();
        } else {
            pos += f.min_size();
        }
    }
    (offs, pos, al)
}

impl Desc {
    pub fn is_sized(&self) -> bool {
        match self {
            Desc::Int { .. } | Desc::Float { .. } | Desc::Unit | Desc::Bool | Desc::Array(..) => true,
            Desc::Struct { sized, .. } | Desc::Enum { sized, .. } => *sized,
            Desc::Vec { .. } | Desc::Str { .. } | Desc::Flex { .. } => false,
        }
    }
    pub fn is_portable(&self) -> bool {
        match self {
            Desc::Int { size, endian, .. } => *size == 1 || *endian != Endian::Native,
            Desc::Float { endian, .. } => *endian != Endian::Native,
            Desc::Unit | Desc::Bool => true,
            Desc::Array(e, _) => e.is_portable(),
            Desc::Struct { portable, .. } | Desc::Enum { portable, .. } => *portable,
            Desc::Vec { elem, len } => elem.is_portable() && len.endian != Endian::Native || (elem.is_portable() && len.size == 1),
            Desc::Str { len } => len.endian != Endian::Native || len.size == 1,
            Desc::Flex { item, len } => item.is_portable() && (len.endian != Endian::Native || len.size == 1),
        }
    }
    pub fn kind(&self) -> &'static str {
        match self {
            Desc::Int { .. } => "Int",
            Desc::Float { .. } => "Float",
            Desc::Unit => "Unit",
            Desc::Bool => "Bool",
            Desc::Array(..) => "Array",
            Desc::Struct { sized: true, .. } => "SizedStruct",
            Desc::Struct { .. } => "UnsizedStruct",
            Desc::Enum { sized: true, .. } => "SizedEnum",
            Desc::Enum { .. } => "UnsizedEnum",
            Desc::Vec { .. } => "FlatVec",
            Desc::Str { .. } => "FlatString",
            Desc::Flex { .. } => "FlexVec",
        }
    }
    /// Does the shape contain a byte whose value is constrained by validation?
    pub fn has_constrained(&self) -> bool {
        match self {
            Desc::Bool | Desc::Str { .. } | Desc::Enum { .. } => true,
            Desc::Array(e, n) => *n > 0 && e.has_constrained(),
            Desc::Struct { fields, .. } => fields.iter().any(|f| f.has_constrained()),
            Desc::Vec { elem, .. } => elem.has_constrained(),
            Desc::Flex { item, .. } => item.has_constrained(),
            _ => false,
        }
    }
    pub fn has_default(&self) -> bool {
        match self {
            Desc::Struct { default, fields, .. } => *default && fields.iter().all(|f| f.has_default()),
            Desc::Enum { default, .. } => default.is_some(),
            Desc::Array(e, n) => *n <= 32 && e.has_default(),
            _ => true,
        }
    }
    pub fn align(&self) -> usize {
        match self {
            Desc::Int { align, .. } | Desc::Float { align, .. } => *align,
            Desc::Unit | Desc::Bool => 1,
            Desc::Array(e, _) => e.align(),
            Desc::Struct { fields, .. } => fields.iter().map(|f| f.align()).max().unwrap_or(1),
            Desc::Enum { tag, variants, .. } => variants
                .iter()
                .flat_map(|v| v.iter())
                .map(|f| f.align())
                .max()
                .unwrap_or(1)
                .max(*tag),
            Desc::Vec { elem, len } => elem.align().max(len.align),
            Desc::Str { len } => len.align,
            Desc::Flex { item, len } => item.align().max(len.align),
        }
    }
    /// Offset of the enum payload (the union in `repr(C, tag)`).
    pub fn enum_data_off(&self) -> usize {
        match self {
            Desc::Enum { tag, variants, .. } => {
                let ua = variants.iter().flat_map(|v| v.iter()).map(|f| f.align()).max().unwrap_or(1);
                ceil_to(*tag, ua)
            }
            _ => panic!("harness: enum_data_off on non-enum"),
        }
    }
    pub fn is_c_like(&self) -> bool {
        matches!(self, Desc::Enum { variants, .. } if variants.iter().all(|v| v.is_empty()))
    }
    /// Static size of a sized shape.
    pub fn size(&self) -> usize {
        match self {
            Desc::Int { size, .. } | Desc::Float { size, .. } => *size,
            Desc::Unit => 0,
            Desc::Bool => 1,
            Desc::Array(e, n) => e.size() * n,
            Desc::Struct { fields, .. } => {
                let (_, end, al) = c_struct(fields);
                ceil_to(end, al)
            }
            Desc::Enum { tag, variants, .. } => {
                if self.is_c_like() {
                    return *tag;
                }
                let doff = self.enum_data_off();
                let ua = variants.iter().flat_map(|v| v.iter()).map(|f| f.align()).max().unwrap_or(1);
                let mut usz = 0;
                for v in variants {
                    let (_, end, al) = c_struct(v);
                    usz = usz.max(ceil_to(end, al));
                }
                ceil_to(doff + ceil_to(usz, ua), self.align())
            }
            _ => panic!("harness: size() of unsized shape"),
        }
    }
    pub fn vec_data_off(&self) -> usize {
        match self {
            Desc::Vec { elem, len } => ceil_to(len.size, elem.align()),
            Desc::Str { len } => len.size,
            _ => panic!("harness: vec_data_off"),
        }
    }
    pub fn flex_slot(&self) -> usize {
        match self {
            Desc::Flex { item, len } => len.size.max(item.align()),
            _ => panic!("harness: flex_slot"),
        }
    }
    /// Minimal number of bytes a value of this shape occupies (all tails empty,
    /// smallest enum variant), rounded up to the alignment.
    pub fn min_size(&self) -> usize {
        if self.is_sized() {
            return self.size();
        }
        match self {
            Desc::Vec { .. } | Desc::Str { .. } => ceil_to(self.vec_data_off(), self.align()),
            Desc::Flex { .. } => ceil_to(self.flex_slot(), self.align()),
            Desc::Struct { fields, .. } => {
                let (_, end, al) = c_struct(fields);
                ceil_to(end, al)
            }
            Desc::Enum { variants, .. } => {
                let doff = ceil_to(self.enum_data_off(), self.align());
                let m = variants.iter().map(|v| c_struct(v).1).min().unwrap_or(0);
                ceil_to(doff + m, self.align())
            }
            _ => unreachable!(),
        }
    }
    /// Per-variant minimal payload size (unrounded), as the generated DATA_MIN_SIZES.
    pub fn variant_min(&self, idx: usize) -> usize {
        match self {
            Desc::Enum { variants, .. } => c_struct(&variants[idx]).1,
            _ => panic!("harness: variant_min"),
        }
    }
    pub fn unsized_data_off(&self) -> usize {
        ceil_to(self.enum_data_off(), self.align())
    }
}

// ---------------------------------------------------------------------------
// scalar byte access

pub fn read_uint(b: &[u8], endian: Endian) -> u128 {
    let mut x: u128 = 0;
    let le = match endian {
        Endian::Le => true,
        Endian::Be => false,
        Endian::Native => cfg!(target_endian = "little"),
    };
    if le {
        for (i, v) in b.iter().enumerate() {
            x |= (*v as u128) << (8 * i);
        }
    } else {
        for v in b.iter() {
            x = (x << 8) | (*v as u128);
        }
    }
    x
}
pub fn write_uint(b: &mut [u8], endian: Endian, x: u128) {
    let n = b.len();
    let le = match endian {
        Endian::Le => true,
        Endian::Be => false,
        Endian::Native => cfg!(target_endian = "little"),
    };
    for i in 0..n {
        let byte = (x >> (8 * i)) as u8;
        if le {
            b[i] = byte;
        } else {
            b[n - 1 - i] = byte;
        }
    }
}

// ---------------------------------------------------------------------------
// parse (strict decoder with positions)

#[derive(Clone, Copy, Debug, PartialEq, Eq, Hash)]
pub enum ErrClass {
    Short,
    BadAlign,
    BadTag,
    BadBool,
    BadUtf8,
    /// FlexVec offset smaller than a slot (can never become valid).
    BadOffset,
}

#[derive(Clone, Debug, PartialEq)]
pub struct DecErr {
    pub class: ErrClass,
    /// Offending byte range (absolute offsets in the parsed slice).
    pub lo: usize,
    pub hi: usize,
}

#[derive(Clone, Copy, Debug, PartialEq, Eq, Hash)]
pub enum RecKind {
    Scalar,
    Bool,
    Tag,
    LenHdr,
    StrData,
    FlexOff,
}

/// One non-padding byte range of an image.
#[derive(Clone, Debug, PartialEq)]
pub struct Rec {
    pub path: Vec<u32>,
    pub off: usize,
    pub len: usize,
    pub kind: RecKind,
}

/// Position of a sub-object (field, element, item) in an image.
#[derive(Clone, Debug, PartialEq)]
pub struct Node {
    pub path: Vec<u32>,
    pub off: usize,
    /// bytes available to the sub-object (its slice)
    pub avail: usize,
    /// end of used data inside the sub-object's slice, relative to `off`
    pub used: usize,
    pub kind: &'static str,
}

#[derive(Clone, Debug, Default)]
pub struct Parsed {
    pub recs: Vec<Rec>,
    pub nodes: Vec<Node>,
}

pub struct Parser<'a> {
    pub bytes: &'a [u8],
    pub out: Parsed,
    pub collect: bool,
}

fn err<T>(class: ErrClass, lo: usize, hi: usize) -> Result<T, DecErr> {
    Err(DecErr { class, lo, hi })
}

impl<'a> Parser<'a> {
    fn rec(&mut self, path: &[u32], off: usize, len: usize, kind: RecKind) {
        if self.collect && len > 0 {
            self.out.recs.push(Rec { path: path.to_vec(), off, len, kind });
        }
    }
    fn node(&mut self, path: &[u32], off: usize, avail: usize, used: usize, kind: &'static str) {
        if self.collect {
            self.out.nodes.push(Node { path: path.to_vec(), off, avail, used, kind });
        }
    }

    fn read_len(&mut self, l: &LenD, off: usize) -> u128 {
        read_uint(&self.bytes[off..off + l.size], l.endian)
    }

    /// Parse `d` on the byte range [off, off+k).  Returns (value, used_end relative to off).
    pub fn parse(&mut self, d: &Desc, off: usize, k: usize, path: &mut Vec<u32>) -> Result<(Value, usize), DecErr> {
        let r = self.parse_inner(d, off, k, path)?;
        self.node(path, off, k, r.1, d.kind());
        Ok(r)
    }

    fn parse_fields(
        &mut self,
        fields: &[Desc],
        off: usize,
        k: usize,
        path: &mut Vec<u32>,
    ) -> Result<(Vec<Value>, usize), DecErr> {
        let (offs, _, _) = c_struct(fields);
        let mut vals = Vec::with_capacity(fields.len());
        let mut used = 0;
        for (i, f) in fields.iter().enumerate() {
            path.push(i as u32);
            let fo = offs[i];
            let r = if f.is_sized() {
                if fo + f.size() > k {
                    path.pop();
                    return err(ErrClass::Short, off, off + k);
                }
                self.parse(f, off + fo, f.size(), path)
            } else {
                if fo > k {
                    path.pop();
                    return err(ErrClass::Short, off, off + k);
                }
                self.parse(f, off + fo, k - fo, path)
            };
            path.pop();
            let (v, u) = r?;
            vals.push(v);
            used = fo + u;
        }
        Ok((vals, used))
    }

    fn parse_inner(&mut self, d: &Desc, off: usize, k: usize, path: &mut Vec<u32>) -> Result<(Value, usize), DecErr> {
        match d {
            Desc::Unit => Ok((Value::Unit, 0)),
            Desc::Int { size, endian, .. } | Desc::Float { size, endian, .. } => {
                if k < *size {
                    return err(ErrClass::Short, off, off + k);
                }
                self.rec(path, off, *size, RecKind::Scalar);
                Ok((Value::U(read_uint(&self.bytes[off..off + size], *endian)), *size))
            }
            Desc::Bool => {
                if k < 1 {
                    return err(ErrClass::Short, off, off + k);
                }
                let b = self.bytes[off];
                if b > 1 {
                    return err(ErrClass::BadBool, off, off + 1);
                }
                self.rec(path, off, 1, RecKind::Bool);
                Ok((Value::U(b as u128), 1))
            }
            Desc::Array(e, n) => {
                let es = e.size();
                if k < es * n {
                    return err(ErrClass::Short, off, off + k);
                }
                let mut vals = Vec::with_capacity(*n);
                for i in 0..*n {
                    path.push(i as u32);
                    let r = self.parse(e, off + i * es, es, path);
                    path.pop();
                    vals.push(r?.0);
                }
                Ok((Value::Arr(vals), es * n))
            }
            Desc::Struct { fields, sized: true, .. } => {
                let sz = d.size();
                if k < sz {
                    return err(ErrClass::Short, off, off + k);
                }
                let (vals, _) = self.parse_fields(fields, off, sz, path)?;
                Ok((Value::Struct(vals), sz))
            }
            Desc::Enum { tag, variants, sized: true, .. } => {
                let sz = d.size();
                if k < sz {
                    return err(ErrClass::Short, off, off + k);
                }
                let t = read_uint(&self.bytes[off..off + tag], Endian::Native);
                if t >= variants.len() as u128 {
                    return err(ErrClass::BadTag, off, off + tag);
                }
                self.rec(path, off, *tag, RecKind::Tag);
                let doff = d.enum_data_off();
                let (vals, _) = self.parse_fields(&variants[t as usize], off + doff, sz - doff, path)?;
                Ok((Value::Var(t as usize, vals), sz))
            }
            Desc::Struct { fields, sized: false, .. } => {
                let ku = floor_to(k, d.align());
                if ku < d.min_size() {
                    return err(ErrClass::Short, off, off + k);
                }
                let (vals, used) = self.parse_fields(fields, off, ku, path)?;
                Ok((Value::Struct(vals), used))
            }
            Desc::Enum { tag, variants, sized: false, .. } => {
                let ku = floor_to(k, d.align());
                if ku < d.min_size() {
                    return err(ErrClass::Short, off, off + k);
                }
                let t = read_uint(&self.bytes[off..off + tag], Endian::Native);
                if t >= variants.len() as u128 {
                    return err(ErrClass::BadTag, off, off + tag);
                }
                self.rec(path, off, *tag, RecKind::Tag);
                let doff = d.unsized_data_off();
                let region = ku - doff;
                if region < d.variant_min(t as usize) {
                    return err(ErrClass::Short, off + doff, off + k);
                }
                let fields = &variants[t as usize];
                let (vals, used) = self.parse_fields(fields, off + doff, region, path)?;
                let used = if fields.is_empty() { *tag } else { doff + used };
                Ok((Value::Var(t as usize, vals), used))
            }
            Desc::Vec { elem, len } => {
                let ku = floor_to(k, d.align());
                let doff = d.vec_data_off();
                if ku < ceil_to(doff, d.align()) {
                    return err(ErrClass::Short, off, off + k);
                }
                let es = elem.size();
                let cap = if es == 0 { len.max_usize() } else { ((ku - doff) / es).min(len.max_usize()) };
                let n = self.read_len(len, off);
                if n > cap as u128 {
                    return err(ErrClass::Short, off, off + len.size);
                }
                self.rec(path, off, len.size, RecKind::LenHdr);
                let n = n as usize;
                let mut vals = Vec::with_capacity(n.min(1 << 16));
                for i in 0..n {
                    path.push(i as u32);
                    let r = self.parse(elem, off + doff + i * es, es, path);
                    path.pop();
                    vals.push(r?.0);
                    if es == 0 && i + 1 >= ZST_READ_CAP {
                        // zero-sized elements: content is the count only; long vectors are
                        // represented by their first elements plus the count
                        if n > ZST_READ_CAP {
                            vals.push(Value::U(n as u128));
                        }
                        break;
                    }
                }
                let used = if n == 0 { len.size } else { doff + n * es };
                Ok((Value::Seq(vals), used.max(len.size)))
            }
            Desc::Str { len } => {
                let ku = floor_to(k, d.align());
                let doff = len.size;
                if ku < ceil_to(doff, d.align()) {
                    return err(ErrClass::Short, off, off + k);
                }
                let cap = (ku - doff).min(len.max_usize());
                let n = self.read_len(len, off);
                if n > cap as u128 {
                    return err(ErrClass::Short, off, off + len.size);
                }
                self.rec(path, off, len.size, RecKind::LenHdr);
                let n = n as usize;
                let data = &self.bytes[off + doff..off + doff + n];
                match core::str::from_utf8(data) {
                    Ok(s) => {
                        let s = s.to_string();
                        self.rec(path, off + doff, n, RecKind::StrData);
                        Ok((Value::Str(s), doff + n))
                    }
                    Err(e) => {
                        let lo = off + doff + e.valid_up_to();
                        let hi = match e.error_len() {
                            Some(l) => lo + l,
                            None => off + doff + n,
                        };
                        err(ErrClass::BadUtf8, lo, hi)
                    }
                }
            }
            Desc::Flex { item, len } => {
                let ku = floor_to(k, d.align());
                let slot = d.flex_slot();
                let lmax = len.max();
                let mut pos = 0usize;
                let mut vals = Vec::new();
                let used;
                loop {
                    if ku < pos || ku - pos < len.size {
                        return err(ErrClass::Short, off + pos.min(k), off + k);
                    }
                    let o = self.read_len(len, off + pos);
                    if o == 0 {
                        self.rec(path, off + pos, len.size, RecKind::FlexOff);
                        used = pos + len.size;
                        break;
                    }
                    if o == lmax {
                        if ku - pos < slot {
                            return err(ErrClass::Short, off + pos, off + k);
                        }
                        self.rec(path, off + pos, len.size, RecKind::FlexOff);
                        path.push(vals.len() as u32);
                        let r = self.parse(item, off + pos + slot, ku - pos - slot, path);
                        path.pop();
                        let (v, u) = r?;
                        vals.push(v);
                        used = pos + slot + u;
                        break;
                    }
                    if o < slot as u128 {
                        return err(ErrClass::BadOffset, off + pos, off + pos + len.size);
                    }
                    // a misaligned offset can never become valid, however many bytes follow
                    if o % d.align() as u128 != 0 {
                        return err(ErrClass::BadAlign, off + pos, off + pos + len.size);
                    }
                    if o > (ku - pos) as u128 {
                        return err(ErrClass::Short, off + pos, off + pos + len.size);
                    }
                    let o = o as usize;
                    self.rec(path, off + pos, len.size, RecKind::FlexOff);
                    path.push(vals.len() as u32);
                    let r = self.parse(item, off + pos + slot, o - slot, path);
                    path.pop();
                    vals.push(r?.0);
                    pos += o;
                    if vals.len() > (1 << 20) {
                        panic!("harness: flex chain too long");
                    }
                }
                Ok((Value::Seq(vals), used))
            }
        }
    }
}

#[derive(Clone, Debug)]
pub struct Decoded {
    pub value: Value,
    /// end of used data (sized sub-objects count with their full size)
    pub used_end: usize,
    /// end of the last non-padding byte
    pub content_end: usize,
    /// reference for `size()`
    pub extent: usize,
    pub parsed: Parsed,
}

/// Strict decode of `bytes` as `d` (alignment of the address is judged by the caller).
pub fn decode(d: &Desc, bytes: &[u8], collect: bool) -> Result<Decoded, DecErr> {
    let mut p = Parser { bytes, out: Parsed::default(), collect: true };
    let _ = collect;
    let mut path = Vec::new();
    let (value, used) = p.parse(d, 0, bytes.len(), &mut path)?;
    let content_end = p.out.recs.iter().map(|r| r.off + r.len).max().unwrap_or(0);
    let extent = if d.is_sized() { d.size() } else { ceil_to(used, d.align()) };
    Ok(Decoded { value, used_end: used, content_end, extent, parsed: p.out })
}

#[derive(Clone, Debug)]
pub enum Verdict {
    MustOk(Decoded),
    MustErr(DecErr),
    /// Only trailing padding is missing: accepting (with this content) or rejecting are both fine.
    May(Decoded),
}

/// Three-valued reference decision for `from_bytes` on `bytes` located at an
/// address with `addr % align == misalign`.
pub fn decide(d: &Desc, bytes: &[u8], misalign: usize) -> Verdict {
    if misalign % d.align() != 0 {
        return Verdict::MustErr(DecErr { class: ErrClass::BadAlign, lo: 0, hi: 0 });
    }
    match decode(d, bytes, true) {
        Ok(x) => Verdict::MustOk(x),
        Err(e) => {
            if matches!(e.class, ErrClass::Short) {
                // does the content fit when only padding is added?
                let n = bytes.len();
                let padded_len = ceil_to(n, d.align()).max(n);
                if padded_len > n {
                    let mut padded = bytes.to_vec();
                    padded.resize(padded_len, 0);
                    if let Ok(x) = decode(d, &padded, true) {
                        if x.content_end <= n {
                            return Verdict::May(x);
                        }
                    }
                }
            }
            Verdict::MustErr(e)
        }
    }
}

// ---------------------------------------------------------------------------
// encoder

#[derive(Clone, Copy, Debug, PartialEq, Eq)]
pub enum FlexForm {
    /// non-last items sealed at their exact extent, last item marked `L::MAX` (what the library writes)
    Canonical,
    /// every item sealed, explicit zero terminator
    Terminated,
}

#[derive(Clone, Debug)]
pub struct EncOpts {
    pub flex: FlexForm,
    /// extra room (in multiples of the flex alignment) given to sealed items
    pub extra_room: usize,
}

impl Default for EncOpts {
    fn default() -> Self {
        EncOpts { flex: FlexForm::Canonical, extra_room: 0 }
    }
}

#[derive(Debug, Clone, PartialEq)]
pub struct NoFit;

/// Write `v` as `d` into buf[off..off+k]; returns used_end relative to off.
pub fn encode_into(d: &Desc, v: &Value, buf: &mut [u8], off: usize, k: usize, o: &EncOpts) -> Result<usize, NoFit> {
    match d {
        Desc::Unit => Ok(0),
        Desc::Int { size, endian, .. } | Desc::Float { size, endian, .. } => {
            if k < *size {
                return Err(NoFit);
            }
            write_uint(&mut buf[off..off + size], *endian, v.u());
            Ok(*size)
        }
        Desc::Bool => {
            if k < 1 {
                return Err(NoFit);
            }
            buf[off] = v.u() as u8;
            Ok(1)
        }
        Desc::Array(e, n) => {
            let es = e.size();
            if k < es * n {
                return Err(NoFit);
            }
            for i in 0..*n {
                encode_into(e, &v.fields()[i], buf, off + i * es, es, o)?;
            }
            Ok(es * n)
        }
        Desc::Struct { fields, sized, .. } => {
            let ku = if *sized { k } else { floor_to(k, d.align()) };
            if ku < d.min_size() {
                return Err(NoFit);
            }
            let used = encode_fields(fields, v.fields(), buf, off, if *sized { d.size() } else { ku }, o)?;
            Ok(if *sized { d.size() } else { used })
        }
        Desc::Enum { tag, variants, sized, .. } => {
            let ku = if *sized { k } else { floor_to(k, d.align()) };
            if ku < d.min_size() {
                return Err(NoFit);
            }
            let (idx, f) = match v {
                Value::Var(i, f) => (*i, f),
                _ => panic!("harness: enum value expected"),
            };
            write_uint(&mut buf[off..off + tag], Endian::Native, idx as u128);
            if *sized {
                let doff = d.enum_data_off();
                encode_fields(&variants[idx], f, buf, off + doff, d.size() - doff, o)?;
                Ok(d.size())
            } else {
                let doff = d.unsized_data_off();
                if ku - doff < d.variant_min(idx) {
                    return Err(NoFit);
                }
                let used = encode_fields(&variants[idx], f, buf, off + doff, ku - doff, o)?;
                Ok(if variants[idx].is_empty() { *tag } else { doff + used })
            }
        }
        Desc::Vec { elem, len } => {
            let ku = floor_to(k, d.align());
            let doff = d.vec_data_off();
            if ku < ceil_to(doff, d.align()) {
                return Err(NoFit);
            }
            let es = elem.size();
            let items = v.fields();
            let cap = if es == 0 { len.max_usize() } else { ((ku - doff) / es).min(len.max_usize()) };
            if items.len() > cap {
                return Err(NoFit);
            }
            write_uint(&mut buf[off..off + len.size], len.endian, items.len() as u128);
            for (i, it) in items.iter().enumerate() {
                encode_into(elem, it, buf, off + doff + i * es, es, o)?;
            }
            Ok(if items.is_empty() { len.size } else { doff + items.len() * es })
        }
        Desc::Str { len } => {
            let ku = floor_to(k, d.align());
            let doff = len.size;
            if ku < ceil_to(doff, d.align()) {
                return Err(NoFit);
            }
            let s = match v {
                Value::Str(s) => s.as_bytes(),
                _ => panic!("harness: string value expected"),
            };
            let cap = (ku - doff).min(len.max_usize());
            if s.len() > cap {
                return Err(NoFit);
            }
            write_uint(&mut buf[off..off + len.size], len.endian, s.len() as u128);
            buf[off + doff..off + doff + s.len()].copy_from_slice(s);
            Ok(doff + s.len())
        }
        Desc::Flex { item, len } => {
            let ku = floor_to(k, d.align());
            let slot = d.flex_slot();
            let al = d.align();
            let items = v.fields();
            let mut pos = 0usize;
            if items.is_empty() {
                if ku < ceil_to(slot, al) {
                    return Err(NoFit);
                }
                write_uint(&mut buf[off..off + len.size], len.endian, 0);
                return Ok(len.size);
            }
            for (i, it) in items.iter().enumerate() {
                let last = i + 1 == items.len();
                if ku < pos + slot {
                    return Err(NoFit);
                }
                if last && o.flex == FlexForm::Canonical {
                    write_uint(&mut buf[off + pos..off + pos + len.size], len.endian, len.max());
                    let u = encode_into(item, it, buf, off + pos + slot, ku - pos - slot, o)?;
                    return Ok(pos + slot + u);
                }
                // sealed item: find its extent by encoding into the rest
                let u = encode_into(item, it, buf, off + pos + slot, ku - pos - slot, o)?;
                let ext = if item.is_sized() { item.size() } else { ceil_to(u, item.align()) };
                let room = ceil_to(ext, al) + o.extra_room * al;
                let offv = slot + room;
                if offv as u128 >= len.max() || pos + offv > ku {
                    return Err(NoFit);
                }
                write_uint(&mut buf[off + pos..off + pos + len.size], len.endian, offv as u128);
                pos += offv;
            }
            // terminated form
            if ku < pos + len.size {
                return Err(NoFit);
            }
            write_uint(&mut buf[off + pos..off + pos + len.size], len.endian, 0);
            Ok(pos + len.size)
        }
    }
}

fn encode_fields(fields: &[Desc], vals: &[Value], buf: &mut [u8], off: usize, k: usize, o: &EncOpts) -> Result<usize, NoFit> {
    let (offs, _, _) = c_struct(fields);
    let mut used = 0;
    assert_eq!(fields.len(), vals.len(), "harness: field count mismatch");
    for (i, f) in fields.iter().enumerate() {
        let fo = offs[i];
        if fo > k {
            return Err(NoFit);
        }
        let avail = if f.is_sized() { f.size() } else { k - fo };
        if fo + avail > k {
            return Err(NoFit);
        }
        let u = encode_into(f, &vals[i], buf, off + fo, avail, o)?;
        used = fo + u;
    }
    Ok(used)
}

/// Encode `v` into a fresh buffer of `n` bytes pre-filled with seeded garbage.
pub fn encode(d: &Desc, v: &Value, n: usize, o: &EncOpts, rng: &mut Rng) -> Result<Vec<u8>, NoFit> {
    let mut buf = vec![0u8; n];
    rng.fill(&mut buf);
    encode_into(d, v, &mut buf, 0, n, o)?;
    Ok(buf)
}

/// Can every non-last item of every FlexVec inside `v` be sealed, i.e. is its offset (slot + padded extent)
/// representable in the offset type and different from the `L::MAX` marker?  (Values that cannot are only produced
/// on purpose: their construction must be refused.)
pub fn sealable(d: &Desc, v: &Value) -> bool {
    match (d, v) {
        (Desc::Flex { item, len }, Value::Seq(items)) => {
            let (slot, al) = (d.flex_slot(), d.align());
            let last = items.len().saturating_sub(1);
            items.iter().enumerate().all(|(i, it)| sealable(item, it) && (i == last || ((slot + ceil_to(extent_of(item, it), al)) as u128) < len.max()))
        }
        (Desc::Struct { fields, .. }, _) => fields.iter().zip(v.fields()).all(|(f, x)| sealable(f, x)),
        (Desc::Enum { variants, .. }, Value::Var(i, f)) => variants[*i].iter().zip(f.iter()).all(|(d, x)| sealable(d, x)),
        // more elements / string bytes than the length type can count
        (Desc::Vec { elem, len }, Value::Seq(items)) => elem.size() == 0 || items.len() as u128 <= len.max(),
        (Desc::Str { len }, Value::Str(s)) => s.len() as u128 <= len.max(),
        _ => true,
    }
}

/// Turn `v` into a value whose content cannot be represented whatever the buffer: the FlatVec / FlatString in tail
/// position (directly, as the last field of an unsized struct / enum variant, or in the last item of a FlexVec) gets more
/// elements than its one-byte length type can count.  `None` when the shape has no such container.
pub fn make_overlong(d: &Desc, v: &Value, rng: &mut Rng) -> Option<Value> {
    match (d, v) {
        (Desc::Vec { elem, len }, Value::Seq(items)) if len.max() <= 255 && elem.size() > 0 && elem.size() <= 16 => {
            let n = [256usize, 257, 300][rng.below(3) as usize];
            let mut it = items.clone();
            while it.len() < n {
                it.push(gen_value(elem, rng, 8));
            }
            Some(Value::Seq(it))
        }
        (Desc::Str { len }, Value::Str(s)) if len.max() <= 255 => {
            let n = [256usize, 257, 300][rng.below(3) as usize];
            let mut s = s.clone();
            while s.len() < n {
                let p = STR_POOL[rng.below(STR_POOL.len() as u64) as usize];
                s.push_str(if p.is_empty() { "x" } else { p });
            }
            Some(Value::Str(s))
        }
        (Desc::Struct { fields, sized: false, .. }, Value::Struct(f)) => {
            let last = fields.len() - 1;
            let nv = make_overlong(&fields[last], &f[last], rng)?;
            let mut f = f.clone();
            f[last] = nv;
            Some(Value::Struct(f))
        }
        (Desc::Enum { variants, sized: false, .. }, Value::Var(i, f)) if !f.is_empty() => {
            let last = f.len() - 1;
            let nv = make_overlong(&variants[*i][last], &f[last], rng)?;
            let mut f = f.clone();
            f[last] = nv;
            Some(Value::Var(*i, f))
        }
        (Desc::Flex { item, len }, Value::Seq(items)) => {
            if len.max() <= 255 && rng.chance(1, 2) {
                // a non-last item whose sealed offset would be the `L::MAX` marker or beyond
                let (slot, al) = (d.flex_slot(), d.align());
                let target = (len.max_usize() + al * rng.range(0, 1)).saturating_sub(slot);
                if let Some(big) = value_with_extent(item, target, rng) {
                    if (slot + ceil_to(extent_of(item, &big), al)) as u128 >= len.max() {
                        let mut its: Vec<Value> = items.iter().take(1).cloned().collect();
                        its.push(big);
                        its.push(smallest_value(item));
                        return Some(Value::Seq(its));
                    }
                }
            }
            let mut items = items.clone();
            if items.is_empty() {
                items.push(smallest_value(item));
            }
            let last = items.len() - 1;
            items[last] = make_overlong(item, &items[last], rng)?;
            Some(Value::Seq(items))
        }
        _ => None,
    }
}

/// a value of shape `d` whose extent is as close as possible to `target` bytes (containers only)
pub fn value_with_extent(d: &Desc, target: usize, rng: &mut Rng) -> Option<Value> {
    match d {
        Desc::Vec { elem, len } if elem.size() > 0 => {
            let k = (target.saturating_sub(d.vec_data_off()) / elem.size()).min(len.max_usize());
            Some(Value::Seq((0..k).map(|_| gen_value(elem, rng, 4)).collect()))
        }
        Desc::Str { len } => {
            let k = target.saturating_sub(len.size).min(len.max_usize());
            Some(Value::Str("z".repeat(k)))
        }
        Desc::Struct { fields, sized: false, .. } => {
            let (offs, _, _) = c_struct(fields);
            let last = fields.len() - 1;
            let tail = value_with_extent(&fields[last], target.saturating_sub(offs[last]), rng)?;
            let mut vals: Vec<Value> = fields[..last].iter().map(|f| gen_value(f, rng, 4)).collect();
            vals.push(tail);
            Some(Value::Struct(vals))
        }
        _ => None,
    }
}

/// Bytes that would hold all the content of an over-long value if its length were representable (a buffer of this
/// size rules out "no room" as the reason for the refusal).
pub fn overlong_room(d: &Desc, v: &Value) -> usize {
    content_bound(d, v) + 4 * d.align() + 64
}

/// Extent (reference for `size()`) of `v` encoded canonically: smallest n that holds it.
pub fn extent_of(d: &Desc, v: &Value) -> usize {
    if d.is_sized() {
        return d.size();
    }
    // encode into a generous buffer and measure
    let n = content_bound(d, v) + 4 * d.align() + 64;
    let mut buf = vec![0u8; n];
    let used = encode_into(d, v, &mut buf, 0, n, &EncOpts::default()).expect("harness: extent_of: bound too small");
    ceil_to(used, d.align())
}

/// Loose upper bound of the bytes needed by `v`.
pub fn content_bound(d: &Desc, v: &Value) -> usize {
    match d {
        Desc::Unit => 0,
        Desc::Int { size, .. } | Desc::Float { size, .. } => *size,
        Desc::Bool => 1,
        Desc::Array(..) => d.size(),
        Desc::Struct { sized: true, .. } | Desc::Enum { sized: true, .. } => d.size(),
        Desc::Struct { fields, .. } => {
            let (offs, _, al) = c_struct(fields);
            let last = fields.len() - 1;
            ceil_to(offs[last] + content_bound(&fields[last], &v.fields()[last]), al) + al
        }
        Desc::Enum { variants, .. } => {
            let (idx, f) = match v {
                Value::Var(i, f) => (*i, f),
                _ => panic!("harness: enum value expected"),
            };
            let al = d.align();
            let doff = d.unsized_data_off();
            if variants[idx].is_empty() {
                return ceil_to(doff, al).max(d.min_size());
            }
            let (offs, _, _) = c_struct(&variants[idx]);
            let last = variants[idx].len() - 1;
            (ceil_to(doff + offs[last] + content_bound(&variants[idx][last], &f[last]), al) + al).max(d.min_size())
        }
        Desc::Vec { elem, .. } => ceil_to(d.vec_data_off() + elem.size() * v.fields().len(), d.align()) + d.align(),
        Desc::Str { .. } => {
            let n = match v {
                Value::Str(s) => s.len(),
                _ => 0,
            };
            ceil_to(d.vec_data_off() + n, d.align()) + d.align()
        }
        Desc::Flex { item, .. } => {
            let slot = d.flex_slot();
            let al = d.align();
            let mut t = slot + al;
            for it in v.fields() {
                t += slot + ceil_to(content_bound(item, it), al) + al;
            }
            t
        }
    }
}

// ---------------------------------------------------------------------------
// defaults, equality, ordering

pub fn default_value(d: &Desc) -> Value {
    match d {
        Desc::Unit => Value::Unit,
        Desc::Int { .. } | Desc::Float { .. } | Desc::Bool => Value::U(0),
        Desc::Array(e, n) => Value::Arr((0..*n).map(|_| default_value(e)).collect()),
        Desc::Struct { fields, .. } => Value::Struct(fields.iter().map(default_value).collect()),
        Desc::Enum { default, variants, .. } => {
            let i = default.expect("harness: default_value of enum without default");
            Value::Var(i, variants[i].iter().map(default_value).collect())
        }
        Desc::Vec { .. } | Desc::Flex { .. } => Value::Seq(vec![]),
        Desc::Str { .. } => Value::Str(String::new()),
    }
}

fn sign_extend(x: u128, size: usize) -> i128 {
    let sh = 128 - 8 * size as u32;
    ((x << sh) as i128) >> sh
}

fn float_of(x: u128, size: usize) -> f64 {
    if size == 4 {
        f32::from_bits(x as u32) as f64
    } else {
        f64::from_bits(x as u64)
    }
}

/// Reference `partial_cmp` of two values of shape `d` (derive(PartialOrd) semantics).
pub fn model_cmp(d: &Desc, a: &Value, b: &Value) -> Option<core::cmp::Ordering> {
    use core::cmp::Ordering::*;
    match d {
        Desc::Unit => Some(Equal),
        Desc::Bool => a.u().partial_cmp(&b.u()),
        Desc::Int { size, signed, .. } => {
            if *signed {
                sign_extend(a.u(), *size).partial_cmp(&sign_extend(b.u(), *size))
            } else {
                a.u().partial_cmp(&b.u())
            }
        }
        Desc::Float { size, .. } => float_of(a.u(), *size).partial_cmp(&float_of(b.u(), *size)),
        Desc::Array(e, _) | Desc::Vec { elem: e, .. } => {
            let (fa, fb) = (a.fields(), b.fields());
            for (x, y) in fa.iter().zip(fb.iter()) {
                match model_cmp(e, x, y) {
                    Some(Equal) => continue,
                    other => return other,
                }
            }
            fa.len().partial_cmp(&fb.len())
        }
        Desc::Str { .. } => match (a, b) {
            (Value::Str(x), Value::Str(y)) => x.as_bytes().partial_cmp(y.as_bytes()),
            _ => None,
        },
        Desc::Struct { fields, .. } => {
            for (i, f) in fields.iter().enumerate() {
                match model_cmp(f, &a.fields()[i], &b.fields()[i]) {
                    Some(Equal) => continue,
                    other => return other,
                }
            }
            Some(Equal)
        }
        Desc::Enum { variants, .. } => {
            let (ia, ib) = match (a, b) {
                (Value::Var(i, _), Value::Var(j, _)) => (*i, *j),
                _ => return None,
            };
            if ia != ib {
                return ia.partial_cmp(&ib);
            }
            for (i, f) in variants[ia].iter().enumerate() {
                match model_cmp(f, &a.fields()[i], &b.fields()[i]) {
                    Some(Equal) => continue,
                    other => return other,
                }
            }
            Some(Equal)
        }
        Desc::Flex { .. } => None,
    }
}

/// Reference `==` (derive(PartialEq) semantics: floats by IEEE comparison).
pub fn model_eq(d: &Desc, a: &Value, b: &Value) -> bool {
    match d {
        // native floats compare by IEEE rules; portable ones by their stored bytes (derive(PartialEq) on the byte array)
        Desc::Float { size, endian: Endian::Native, .. } => float_of(a.u(), *size) == float_of(b.u(), *size),
        Desc::Array(e, _) | Desc::Vec { elem: e, .. } => {
            a.fields().len() == b.fields().len() && a.fields().iter().zip(b.fields()).all(|(x, y)| model_eq(e, x, y))
        }
        Desc::Struct { fields, .. } => fields.iter().enumerate().all(|(i, f)| model_eq(f, &a.fields()[i], &b.fields()[i])),
        Desc::Enum { variants, .. } => match (a, b) {
            (Value::Var(i, fa), Value::Var(j, fb)) => {
                i == j && variants[*i].iter().enumerate().all(|(k, f)| model_eq(f, &fa[k], &fb[k]))
            }
            _ => false,
        },
        _ => a == b,
    }
}

// ---------------------------------------------------------------------------
// value generation

const STR_POOL: &[&str] = &["", "a", "ab", "abc", "é", "ж", "€", "𝄞", "xyz€", "hello", "日本", "a𝄞b", "0123456789", "~"];

fn gen_scalar(size: usize, float: bool, rng: &mut Rng) -> u128 {
    let mask: u128 = if size >= 16 { u128::MAX } else { (1u128 << (8 * size)) - 1 };
    let top: u128 = 1u128 << (8 * size - 1);
    let r = rng.below(16);
    let x = match r {
        0 => 0,
        1 => 1,
        2 => mask,
        3 => top,
        4 => top - 1,
        5 => mask - 1,
        6 => {
            // byte-distinct pattern exposing endianness
            let mut x = 0u128;
            for i in 0..size {
                x |= ((i as u128) + 1) << (8 * i);
            }
            x
        }
        7 if float => {
            if size == 4 {
                f32::NAN.to_bits() as u128 | (rng.next() as u128 & 0x3f_ffff)
            } else {
                f64::NAN.to_bits() as u128 | (rng.next() as u128 & 0xffff_ffff)
            }
        }
        8 if float => top, // -0.0
        9 if float => {
            if size == 4 {
                f32::INFINITY.to_bits() as u128
            } else {
                f64::INFINITY.to_bits() as u128
            }
        }
        10 if float => {
            if size == 4 {
                (1.5f32).to_bits() as u128
            } else {
                (-2.25f64).to_bits() as u128
            }
        }
        _ => ((rng.next() as u128) << 64 | rng.next() as u128) & mask,
    };
    x & mask
}

/// Shape-directed, boundary-biased value generator.  `budget` bounds the byte
/// size of containers so that values stay small.
pub fn gen_value(d: &Desc, rng: &mut Rng, budget: usize) -> Value {
    match d {
        Desc::Unit => Value::Unit,
        Desc::Bool => Value::U(rng.below(2) as u128),
        Desc::Int { size, .. } => Value::U(gen_scalar(*size, false, rng)),
        Desc::Float { size, .. } => Value::U(gen_scalar(*size, true, rng)),
        Desc::Array(e, n) => Value::Arr((0..*n).map(|_| gen_value(e, rng, budget)).collect()),
        Desc::Struct { fields, .. } => Value::Struct(fields.iter().map(|f| gen_value(f, rng, budget)).collect()),
        Desc::Enum { variants, .. } => {
            let i = rng.below(variants.len() as u64) as usize;
            Value::Var(i, variants[i].iter().map(|f| gen_value(f, rng, budget)).collect())
        }
        Desc::Vec { elem, len } => {
            let es = elem.size().max(1);
            let maxn = (budget / es).min(len.max_usize()).min(if elem.size() == 0 { ZST_READ_CAP } else { 300 });
            let n = match rng.below(6) {
                0 => 0,
                1 => 1.min(maxn),
                2 => maxn,
                _ => rng.below(maxn as u64 + 1) as usize,
            };
            Value::Seq((0..n).map(|_| gen_value(elem, rng, budget)).collect())
        }
        Desc::Str { len } => {
            let maxn = budget.min(len.max_usize()).min(300);
            let mut s = String::new();
            let pieces = rng.below(4);
            for _ in 0..pieces {
                let p = STR_POOL[rng.below(STR_POOL.len() as u64) as usize];
                if s.len() + p.len() <= maxn {
                    s.push_str(p);
                }
            }
            Value::Str(s)
        }
        Desc::Flex { item, len } => {
            let n = match rng.below(6) {
                0 => 0,
                1 => 1,
                2 => 2,
                3 => 3,
                _ => rng.below(5) as usize,
            };
            let sub = (budget / n.max(1)).max(4);
            let mut items: Vec<Value> = (0..n).map(|_| gen_value(item, rng, sub)).collect();
            // every non-last item must be sealable: its offset has to be representable in the offset type
            let slot = d.flex_slot();
            let al = d.align();
            let last = items.len().saturating_sub(1);
            for (i, it) in items.iter_mut().enumerate() {
                if i < last && (slot + ceil_to(extent_of(item, it), al)) as u128 >= len.max() {
                    *it = smallest_value(item);
                }
            }
            Value::Seq(items)
        }
    }
}

// ---------------------------------------------------------------------------
// size of the mapped view, portable serialisation

/// `size_of_val` of a value of shape `d` mapped on `n` bytes (n >= min_size).
pub fn view_size(d: &Desc, n: usize) -> usize {
    if d.is_sized() {
        return d.size();
    }
    let a = d.align();
    let nu = floor_to(n, a);
    match d {
        Desc::Vec { elem, .. } => {
            let doff = d.vec_data_off();
            let es = elem.size();
            if es == 0 {
                ceil_to(doff, a)
            } else {
                ceil_to(doff + ((nu - doff) / es) * es, a)
            }
        }
        Desc::Str { .. } | Desc::Flex { .. } | Desc::Enum { .. } => nu,
        Desc::Struct { fields, .. } => {
            let (offs, _, _) = c_struct(fields);
            let lo = *offs.last().unwrap();
            ceil_to(lo + view_size(fields.last().unwrap(), nu - lo), a)
        }
        _ => unreachable!(),
    }
}

/// Reference serialisation of a portable value: the concatenation, in
/// declaration order, of tag, fields, length, elements (FlexVec: offset word,
/// item, ...).  Knows nothing about alignment or padding.  `None` marks the
/// unused bytes of a sized enum whose active variant is smaller than the
/// largest one (their content is unspecified).
pub fn serialize_portable(d: &Desc, v: &Value, out: &mut Vec<Option<u8>>) {
    fn put(out: &mut Vec<Option<u8>>, size: usize, endian: Endian, x: u128) {
        let mut b = vec![0u8; size];
        write_uint(&mut b, endian, x);
        out.extend(b.iter().map(|x| Some(*x)));
    }
    /// number of bytes of a sized portable shape = sum of its parts
    fn psize(d: &Desc) -> usize {
        match d {
            Desc::Unit => 0,
            Desc::Bool => 1,
            Desc::Int { size, .. } | Desc::Float { size, .. } => *size,
            Desc::Array(e, n) => psize(e) * n,
            Desc::Struct { fields, .. } => fields.iter().map(psize).sum(),
            Desc::Enum { tag, variants, .. } => tag + variants.iter().map(|v| v.iter().map(psize).sum::<usize>()).max().unwrap_or(0),
            _ => panic!("harness: psize of unsized shape"),
        }
    }
    match d {
        Desc::Unit => {}
        Desc::Bool => out.push(Some(v.u() as u8)),
        Desc::Int { size, endian, .. } | Desc::Float { size, endian, .. } => put(out, *size, *endian, v.u()),
        Desc::Array(e, _) => {
            for x in v.fields() {
                serialize_portable(e, x, out);
            }
        }
        Desc::Struct { fields, .. } => {
            for (f, x) in fields.iter().zip(v.fields()) {
                serialize_portable(f, x, out);
            }
        }
        Desc::Enum { tag, variants, sized, .. } => {
            let (i, f) = match v {
                Value::Var(i, f) => (*i, f),
                _ => panic!("harness: enum value expected"),
            };
            let start = out.len();
            put(out, *tag, Endian::Native, i as u128);
            for (fd, x) in variants[i].iter().zip(f) {
                serialize_portable(fd, x, out);
            }
            if *sized {
                let total = psize(d);
                while out.len() < start + total {
                    out.push(None);
                }
            }
        }
        Desc::Vec { elem, len } => {
            put(out, len.size, len.endian, v.fields().len() as u128);
            for x in v.fields() {
                serialize_portable(elem, x, out);
            }
        }
        Desc::Str { len } => {
            let s = match v {
                Value::Str(s) => s.as_bytes(),
                _ => panic!("harness: string value expected"),
            };
            put(out, len.size, len.endian, s.len() as u128);
            out.extend(s.iter().map(|x| Some(*x)));
        }
        Desc::Flex { item, len } => {
            let items = v.fields();
            if items.is_empty() {
                put(out, len.size, len.endian, 0);
                return;
            }
            for (i, x) in items.iter().enumerate() {
                let mut body = Vec::new();
                serialize_portable(item, x, &mut body);
                if i + 1 == items.len() {
                    put(out, len.size, len.endian, len.max());
                } else {
                    put(out, len.size, len.endian, (len.size + body.len()) as u128);
                }
                out.extend(body);
            }
        }
    }
}

// ---------------------------------------------------------------------------
// navigation

/// Shape and value of the sub-object at `path` (field / element / item indices).
pub fn node_at<'a>(d: &'a Desc, v: &'a Value, path: &[u32]) -> Option<(&'a Desc, &'a Value)> {
    let (mut d, mut v) = (d, v);
    for p in path {
        let i = *p as usize;
        let (nd, nv): (&Desc, &Value) = match (d, v) {
            (Desc::Array(e, _), Value::Arr(f)) => (&**e, f.get(i)?),
            (Desc::Vec { elem, .. }, Value::Seq(f)) => (&**elem, f.get(i)?),
            (Desc::Flex { item, .. }, Value::Seq(f)) => (&**item, f.get(i)?),
            (Desc::Struct { fields, .. }, Value::Struct(f)) => (fields.get(i)?, f.get(i)?),
            (Desc::Enum { variants, .. }, Value::Var(k, f)) => (variants.get(*k)?.get(i)?, f.get(i)?),
            _ => return None,
        };
        d = nd;
        v = nv;
    }
    Some((d, v))
}

/// Replace the sub-value at `path`.
pub fn set_at(v: &mut Value, path: &[u32], new: Value) -> bool {
    match path.split_first() {
        None => {
            *v = new;
            true
        }
        Some((i, rest)) => match v {
            Value::Arr(f) | Value::Seq(f) | Value::Struct(f) | Value::Var(_, f) => match f.get_mut(*i as usize) {
                Some(c) => set_at(c, rest, new),
                None => false,
            },
            _ => false,
        },
    }
}

/// Chain layout of a FlexVec located at bytes[off..off+avail]: per item
/// (slot position, payload offset, payload bytes available), all relative to `off`,
/// plus how the chain ends.
#[derive(Clone, Debug, PartialEq)]
pub enum FlexEnd {
    Empty,
    /// last item is marked L::MAX (slot position given)
    Open(usize),
    /// explicit terminator at this position
    Terminated(usize),
}

pub fn flex_layout(d: &Desc, bytes: &[u8], off: usize, avail: usize) -> Option<(Vec<(usize, usize, usize)>, FlexEnd, usize)> {
    let (len, slot, al) = match d {
        Desc::Flex { len, .. } => (*len, d.flex_slot(), d.align()),
        _ => return None,
    };
    let ku = floor_to(avail, al);
    let mut items = Vec::new();
    let mut pos = 0usize;
    loop {
        if ku < pos + len.size {
            return None;
        }
        let o = read_uint(&bytes[off + pos..off + pos + len.size], len.endian);
        if o == 0 {
            let end = if items.is_empty() { FlexEnd::Empty } else { FlexEnd::Terminated(pos) };
            return Some((items, if pos == 0 { FlexEnd::Empty } else { end }, ku));
        }
        if o == len.max() {
            if ku < pos + slot {
                return None;
            }
            items.push((pos, pos + slot, ku - pos - slot));
            return Some((items, FlexEnd::Open(pos), ku));
        }
        let o = o as usize;
        if o < slot || pos + o > ku {
            return None;
        }
        items.push((pos, pos + slot, o - slot));
        pos += o;
    }
}


/// The value with the smallest extent (empty containers, smallest enum variant).
pub fn smallest_value(d: &Desc) -> Value {
    match d {
        Desc::Unit => Value::Unit,
        Desc::Int { .. } | Desc::Float { .. } | Desc::Bool => Value::U(0),
        Desc::Array(e, n) => Value::Arr((0..*n).map(|_| smallest_value(e)).collect()),
        Desc::Struct { fields, .. } => Value::Struct(fields.iter().map(smallest_value).collect()),
        Desc::Enum { variants, sized, .. } => {
            let mut best = 0;
            if !*sized {
                let mut bm = usize::MAX;
                for (i, v) in variants.iter().enumerate() {
                    let m = c_struct(v).1;
                    if m < bm {
                        bm = m;
                        best = i;
                    }
                }
            }
            Value::Var(best, variants[best].iter().map(smallest_value).collect())
        }
        Desc::Vec { .. } | Desc::Flex { .. } => Value::Seq(vec![]),
        Desc::Str { .. } => Value::Str(String::new()),
    }
}
