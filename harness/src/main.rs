//! vrun: executes one shard of one property workload and prints a REPORT line.

mod arena;
mod engine;
mod engines;
mod inputs;
mod iofns;
mod json;
mod model;
mod rng;
mod shape;
mod zoo_fixed;
mod zoo_rand;

use engine::*;
use std::sync::atomic::AtomicU64;
use std::sync::Arc;
use std::time::Instant;

fn arg<'a>(args: &'a [String], name: &str) -> Option<&'a str> {
    args.iter().position(|a| a == name).and_then(|i| args.get(i + 1)).map(|s| s.as_str())
}

fn main() {
    let args: Vec<String> = std::env::args().collect();
    let prop = arg(&args, "--prop").unwrap_or("C01").to_string();
    let sub = arg(&args, "--sub").unwrap_or("random").to_string();
    let tier = if arg(&args, "--tier") == Some("thorough") { Tier::Thorough } else { Tier::Quick };
    let seed: u64 = arg(&args, "--seed").and_then(|s| s.parse().ok()).unwrap_or(1);
    let (shard, nshards) = match arg(&args, "--shard") {
        Some(s) => {
            let mut it = s.split('/');
            (it.next().unwrap().parse().unwrap(), it.next().unwrap().parse().unwrap())
        }
        None => (0, 1),
    };
    let only = arg(&args, "--only").and_then(|s| s.parse().ok());
    let max_cases = arg(&args, "--cases").and_then(|s| s.parse().ok()).unwrap_or(1000);
    let budget_ms = arg(&args, "--ms").and_then(|s| s.parse().ok()).unwrap_or(0);
    let mode = arg(&args, "--mode").unwrap_or("debug").to_string();
    let lite = args.iter().any(|a| a == "--lite");
    let trace = args.iter().any(|a| a == "--trace");
    let with_rand = !args.iter().any(|a| a == "--no-rand-zoo");
    let shapes_filter = arg(&args, "--shapes").map(|s| s.to_string());

    let mut zoo = zoo_fixed::zoo_fixed();
    if with_rand {
        zoo.extend(zoo_rand::zoo_rand());
    }
    if let Some(f) = shapes_filter {
        let names: Vec<&str> = f.split(';').collect();
        zoo.retain(|v| names.iter().any(|n| *n == v.name));
    }
    if args.iter().any(|a| a == "--list") {
        for v in &zoo {
            println!("{}\talign={}\tmin={}\tmsg={}\t{}", v.name, v.align, v.min_size, v.is_msg, v.desc.kind());
        }
        return;
    }

    let current = Arc::new(AtomicU64::new(u64::MAX));
    let ctx = Ctx {
        prop: prop.clone(),
        tier,
        seed,
        shard,
        nshards,
        only,
        max_cases,
        budget_ms,
        case_ms: arg(&args, "--case-ms").and_then(|s| s.parse().ok()).unwrap_or(0),
        case_start: std::cell::Cell::new(Instant::now()),
        mode,
        lite,
        trace,
        zoo,
        start: Instant::now(),
        current: current.clone(),
        sub,
        corpus: arg(&args, "--corpus").map(|s| s.to_string()),
        engine: arg(&args, "--engine").map(|s| s.to_string()),
    };
    if let Some(p) = arg(&args, "--dump") {
        let n: u64 = arg(&args, "--dump-n").and_then(|s| s.parse().ok()).unwrap_or(1000);
        engines::dump(&ctx, n, p);
        return;
    }
    engine::TRACE_PANICS.store(trace && !args.iter().any(|a| a == "--no-panic-trace"), std::sync::atomic::Ordering::Relaxed);
    install_panic_hook();
    let hang_ms = arg(&args, "--hang-ms").and_then(|s| s.parse().ok()).unwrap_or(20_000);
    start_watchdog(current, hang_ms);
    let mut rep = Report::new();
    engines::dispatch(&ctx, &mut rep);
    let j = rep.to_json(&ctx);
    println!("REPORT {}", j.to_string());
}
