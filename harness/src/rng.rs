//! Small deterministic PRNG (splitmix64) so that every case is a pure function of (seed, index).

#[derive(Clone, Debug)]
pub struct Rng(pub u64);

pub fn mix(mut z: u64) -> u64 {
    z = z.wrapping_add(0x9e3779b97f4a7c15);
    z = (z ^ (z >> 30)).wrapping_mul(0xbf58476d1ce4e5b9);
    z = (z ^ (z >> 27)).wrapping_mul(0x94d049bb133111eb);
    z ^ (z >> 31)
}

pub fn hash_str(s: &str) -> u64 {
    let mut h: u64 = 0xcbf29ce484222325;
    for b in s.bytes() {
        h ^= b as u64;
        h = h.wrapping_mul(0x100000001b3);
    }
    mix(h)
}

pub fn hash_bytes(s: &[u8]) -> u64 {
    let mut h: u64 = 0xcbf29ce484222325;
    for b in s {
        h ^= *b as u64;
        h = h.wrapping_mul(0x100000001b3);
    }
    mix(h)
}

impl Rng {
    pub fn new(seed: u64) -> Self {
        Rng(mix(seed ^ 0x5151_5151_dead_beef))
    }
    pub fn derive(seed: u64, a: u64, b: u64) -> Self {
        Rng(mix(mix(seed) ^ mix(a.wrapping_mul(0x9e37_79b9)) ^ mix(b).rotate_left(17)))
    }
    pub fn next(&mut self) -> u64 {
        self.0 = self.0.wrapping_add(0x9e3779b97f4a7c15);
        let mut z = self.0;
        z = (z ^ (z >> 30)).wrapping_mul(0xbf58476d1ce4e5b9);
        z = (z ^ (z >> 27)).wrapping_mul(0x94d049bb133111eb);
        z ^ (z >> 31)
    }
    /// uniform in 0..n (n > 0)
    pub fn below(&mut self, n: u64) -> u64 {
        if n == 0 {
            0
        } else {
            self.next() % n
        }
    }
    pub fn range(&mut self, lo: usize, hi_incl: usize) -> usize {
        if hi_incl <= lo {
            lo
        } else {
            lo + self.below((hi_incl - lo + 1) as u64) as usize
        }
    }
    pub fn chance(&mut self, num: u64, den: u64) -> bool {
        self.below(den) < num
    }
    pub fn fill(&mut self, buf: &mut [u8]) {
        for c in buf.chunks_mut(8) {
            let x = self.next().to_le_bytes();
            c.copy_from_slice(&x[..c.len()]);
        }
    }
    pub fn pick<'a, T>(&mut self, xs: &'a [T]) -> &'a T {
        &xs[self.below(xs.len() as u64) as usize]
    }
}
