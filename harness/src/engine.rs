//! Common infrastructure for the per-property engines: run context, panic
//! capture, per-shard report, hang watchdog.

use crate::json::J;
use crate::shape::VT;
use std::cell::RefCell;
use std::collections::{BTreeMap, HashSet};
use std::sync::atomic::{AtomicU64, Ordering};
use std::sync::Arc;
use std::time::Instant;

#[derive(Clone, Copy, Debug, PartialEq, Eq)]
pub enum Tier {
    Quick,
    Thorough,
}

pub struct Ctx {
    pub prop: String,
    pub tier: Tier,
    pub seed: u64,
    pub shard: u64,
    pub nshards: u64,
    pub only: Option<u64>,
    pub max_cases: u64,
    pub budget_ms: u64,
    /// soft per-case time budget (0 = none): engines whose cases are long histories stop a history between two
    /// steps once it has used this much wall-clock time.  Only the interpreter runs set it; a replay never does.
    pub case_ms: u64,
    pub case_start: std::cell::Cell<Instant>,
    /// name of the monitor configuration (debug / release / miri / asan / memcheck)
    pub mode: String,
    /// cheap mode for interpreters: skip the expensive reference-side work where the native runs do it
    pub lite: bool,
    pub trace: bool,
    pub zoo: Vec<VT>,
    pub start: Instant,
    pub current: Arc<AtomicU64>,
    pub sub: String,
    pub corpus: Option<String>,
    pub engine: Option<String>,
}

impl Ctx {
    pub fn shape(&self, name: &str) -> Option<&VT> {
        self.zoo.iter().find(|v| v.name == name)
    }
    pub fn out_of_budget(&self, done: u64) -> bool {
        done >= self.max_cases || (self.budget_ms > 0 && self.start.elapsed().as_millis() as u64 >= self.budget_ms)
    }
    /// Iterate the case indices of this shard; calls `f(idx)` until the budget is used up.
    pub fn for_cases(&self, rep: &mut Report, mut f: impl FnMut(u64, &mut Report)) {
        if let Some(i) = self.only {
            self.begin_case(i);
            f(i, rep);
            return;
        }
        let mut idx = self.shard;
        let mut done = 0u64;
        while !self.out_of_budget(done) {
            self.begin_case(idx);
            f(idx, rep);
            let ms = self.case_start.get().elapsed().as_millis() as u64;
            rep.max("max:case_ms", ms);
            idx += self.nshards;
            done += 1;
        }
    }
    /// True when the current case has used up its soft time budget (see `case_ms`).
    pub fn case_over(&self) -> bool {
        self.case_ms > 0 && self.case_start.get().elapsed().as_millis() as u64 >= self.case_ms
    }
    pub fn begin_case(&self, idx: u64) {
        self.current.store(idx, Ordering::SeqCst);
        self.case_start.set(Instant::now());
        CASE_CPU_START.with(|c| *c.borrow_mut() = cpu_ms());
        if self.trace {
            eprintln!("CASE {}", idx);
        }
    }
}

pub static TRACE_PANICS: std::sync::atomic::AtomicBool = std::sync::atomic::AtomicBool::new(false);

thread_local! {
    static QUIET: RefCell<bool> = RefCell::new(false);
    static CASE_CPU_START: RefCell<u64> = RefCell::new(0);
    static LAST_PANIC: RefCell<Option<String>> = RefCell::new(None);
}

pub fn cpu_ms() -> u64 {
    #[cfg(not(miri))]
    unsafe {
        let mut ts: libc::timespec = std::mem::zeroed();
        libc::clock_gettime(libc::CLOCK_PROCESS_CPUTIME_ID, &mut ts);
        (ts.tv_sec as u64) * 1000 + (ts.tv_nsec as u64) / 1_000_000
    }
    #[cfg(miri)]
    {
        0
    }
}

/// Install a panic hook that records "<message> at <file>:<line>" instead of printing.
pub fn install_panic_hook() {
    std::panic::set_hook(Box::new(|info| {
        if QUIET.with(|q| *q.borrow()) {
            return;
        }
        let loc = info.location().map(|l| format!("{}:{}", l.file(), l.line())).unwrap_or_default();
        let msg = if let Some(s) = info.payload().downcast_ref::<&str>() {
            s.to_string()
        } else if let Some(s) = info.payload().downcast_ref::<String>() {
            s.clone()
        } else {
            "<non-string panic>".to_string()
        };
        let desc = format!("{} at {}", msg, loc);
        if TRACE_PANICS.load(Ordering::Relaxed) {
            // crash diagnosis: if the process aborts (panic while unwinding) the last of these lines names the site
            eprintln!("PANIC {}", desc);
        }
        LAST_PANIC.with(|p| {
            let mut p = p.borrow_mut();
            if let Some(first) = p.as_ref() {
                // a second panic before the first one was collected: unwinding will abort the process
                eprintln!("NESTED-PANIC first: {} || second: {}", first, desc);
            } else {
                *p = Some(desc);
            }
        });
    }));
}

/// Run `f`, converting a panic into `Err(description)`.
pub fn guarded<R>(f: impl FnOnce() -> R) -> Result<R, String> {
    LAST_PANIC.with(|p| *p.borrow_mut() = None);
    match std::panic::catch_unwind(std::panic::AssertUnwindSafe(f)) {
        Ok(r) => Ok(r),
        Err(_) => Err(LAST_PANIC.with(|p| p.borrow_mut().take()).unwrap_or_else(|| "panic".into())),
    }
}

/// Like `guarded`, but panics are only counted, not described (for workloads where panics are the common case).
pub fn guarded_quiet<R>(f: impl FnOnce() -> R) -> Result<R, String> {
    QUIET.with(|q| *q.borrow_mut() = true);
    let r = std::panic::catch_unwind(std::panic::AssertUnwindSafe(f));
    QUIET.with(|q| *q.borrow_mut() = false);
    r.map_err(|_| "panic".to_string())
}

/// Strip the machine-specific prefix of a panic location so that signatures are stable.
pub fn panic_site(desc: &str) -> String {
    let d = desc;
    let at = match d.rfind(" at ") {
        Some(i) => &d[i + 4..],
        None => return "unknown".into(),
    };
    for marker in ["/containers/src/", "/base/src/", "/macros/src/", "/portable/src/", "/io/src/", "/stavec-", "/library/", "/harness/src/"] {
        if let Some(i) = at.find(marker) {
            return at[i + 1..].to_string();
        }
    }
    at.to_string()
}

pub fn is_harness_panic(desc: &str) -> bool {
    // the harness is compiled from its own directory: its panic locations are relative ("src/model.rs:85"),
    // the library's are absolute paths.  The glue (shape.rs, zoo_*.rs) is where the library's inlined / track_caller
    // panics (slice indexing, unwrap) are attributed, so it is not counted as harness code here
    let site = panic_site(desc);
    desc.contains("harness:") || site.starts_with("harness/src/") || (site.starts_with("src/") && !site.starts_with("src/shape.rs") && !site.starts_with("src/zoo_"))
}

#[derive(Clone, Debug)]
pub struct Violation {
    pub signature: String,
    pub what: String,
    pub case: J,
}

pub struct Report {
    pub evaluations: u64,
    pub keys: HashSet<u64>,
    pub keys_overflow: bool,
    pub counters: BTreeMap<String, u64>,
    pub samples: Vec<J>,
    pub violations: Vec<Violation>,
    pub violations_dropped: u64,
    pub sig_seen: BTreeMap<String, u64>,
    pub notes: Vec<String>,
    pub harness_errors: Vec<String>,
}

pub const MAX_KEYS: usize = 400_000;

impl Report {
    pub fn new() -> Report {
        Report {
            evaluations: 0,
            keys: HashSet::new(),
            keys_overflow: false,
            counters: BTreeMap::new(),
            samples: Vec::new(),
            violations: Vec::new(),
            violations_dropped: 0,
            sig_seen: BTreeMap::new(),
            notes: Vec::new(),
            harness_errors: Vec::new(),
        }
    }
    pub fn count(&mut self, k: &str) {
        *self.counters.entry(k.to_string()).or_insert(0) += 1;
    }
    pub fn add(&mut self, k: &str, n: u64) {
        *self.counters.entry(k.to_string()).or_insert(0) += n;
    }
    pub fn max(&mut self, k: &str, n: u64) {
        let e = self.counters.entry(k.to_string()).or_insert(0);
        if n > *e {
            *e = n;
        }
    }
    /// Record a distinct non-trivial case key.
    pub fn key(&mut self, k: u64) {
        if self.keys.len() < MAX_KEYS {
            self.keys.insert(k);
        } else {
            self.keys_overflow = true;
        }
    }
    pub fn sample(&mut self, cap: usize, j: impl FnOnce() -> J) {
        if self.samples.len() < cap {
            self.samples.push(j());
        }
    }
    pub fn violation(&mut self, signature: String, what: String, case: J) {
        let n = self.sig_seen.entry(signature.clone()).or_insert(0);
        *n += 1;
        // keep the first few witnesses of every signature
        if *n <= 2 && self.violations.len() < 400 {
            self.violations.push(Violation { signature, what, case });
        } else {
            self.violations_dropped += 1;
        }
    }
    pub fn harness_error(&mut self, s: String) {
        if self.harness_errors.len() < 20 {
            self.harness_errors.push(s);
        }
    }
    pub fn to_json(&self, ctx: &Ctx) -> J {
        let mut keys: Vec<u64> = self.keys.iter().copied().collect();
        keys.sort_unstable();
        J::obj()
            .set("prop", J::s(ctx.prop.clone()))
            .set("sub", J::s(ctx.sub.clone()))
            .set("mode", J::s(ctx.mode.clone()))
            .set("shard", J::i(ctx.shard))
            .set("nshards", J::i(ctx.nshards))
            .set("seed", J::i(ctx.seed))
            .set("evaluations", J::i(self.evaluations))
            .set("keys", J::Arr(keys.iter().map(|k| J::Str(format!("{:016x}", k))).collect()))
            .set("keys_overflow", J::Bool(self.keys_overflow))
            .set("counters", J::Obj(self.counters.iter().map(|(k, v)| (k.clone(), J::i(*v))).collect()))
            .set("samples", J::Arr(self.samples.clone()))
            .set(
                "violations",
                J::Arr(
                    self.violations
                        .iter()
                        .map(|v| J::obj().set("signature", J::s(v.signature.clone())).set("what", J::s(v.what.clone())).set("case", v.case.clone()))
                        .collect(),
                ),
            )
            .set("signature_counts", J::Obj(self.sig_seen.iter().map(|(k, v)| (k.clone(), J::i(*v))).collect()))
            .set("violations_dropped", J::i(self.violations_dropped))
            .set("notes", J::Arr(self.notes.iter().map(|s| J::s(s.clone())).collect()))
            .set("harness_errors", J::Arr(self.harness_errors.iter().map(|s| J::s(s.clone())).collect()))
            .set("wall_ms", J::i(ctx.start.elapsed().as_millis() as u64))
    }
}

/// CPU-time watchdog: if one case burns more than `limit_ms` of process CPU
/// time the process prints a HANG line and exits with status 3.  CPU time (not
/// wall-clock) keeps the verdict independent of machine load.
pub fn start_watchdog(current: Arc<AtomicU64>, limit_ms: u64) {
    #[cfg(not(miri))]
    std::thread::spawn(move || {
        let mut last_idx = u64::MAX;
        let mut since = cpu_ms();
        loop {
            std::thread::sleep(std::time::Duration::from_millis(250));
            let idx = current.load(Ordering::SeqCst);
            let now = cpu_ms();
            if idx != last_idx {
                last_idx = idx;
                since = now;
                continue;
            }
            if now.saturating_sub(since) > limit_ms {
                println!("HANG idx={} cpu_ms={}", idx, now - since);
                use std::io::Write;
                let _ = std::io::stdout().flush();
                std::process::exit(3);
            }
        }
    });
    #[cfg(miri)]
    {
        let _ = (current, limit_ms);
    }
}

pub fn case_json(ctx: &Ctx, idx: u64) -> J {
    J::obj()
        .set("prop", J::s(ctx.prop.clone()))
        .set("sub", J::s(ctx.sub.clone()))
        .set("seed", J::i(ctx.seed))
        .set("idx", J::i(idx))
        .set("mode", J::s(ctx.mode.clone()))
        .set("tier", J::s(if ctx.tier == Tier::Quick { "quick" } else { "thorough" }))
}
