//! Generators of byte-level inputs for the validation-side engines
//! (C01, C02, C06, C10, C19): random bytes, structure-aware hostile bytes,
//! valid images and their truncations / extensions / single-header mutations.

use crate::model::*;
use crate::rng::Rng;

#[derive(Clone, Debug)]
pub struct Input {
    pub bytes: Vec<u8>,
    /// wanted address offset (mod arena::BASE_ALIGN)
    pub off: usize,
    pub kind: &'static str,
}

pub fn pick_offset(align: usize, rng: &mut Rng) -> usize {
    let a = align.max(1);
    match rng.below(10) {
        0..=5 => a * rng.below((64 / a) as u64) as usize,
        6 => 0,
        _ => rng.below(64) as usize,
    }
}

fn small_byte(rng: &mut Rng) -> u8 {
    match rng.below(10) {
        0 | 1 => 0,
        2 => 1,
        3 => 2,
        4 => 0xff,
        5 => rng.below(8) as u8,
        6 => rng.below(32) as u8,
        _ => rng.next() as u8,
    }
}

pub fn boundary_len(d: &Desc, rng: &mut Rng, cap: usize) -> usize {
    let a = d.align();
    let m = d.min_size();
    let hi = (m + 3 * a + 24).min(cap);
    match rng.below(8) {
        0 => 0,
        1 => m.saturating_sub(1).min(cap),
        2 => m.min(cap),
        3 => (m + 1).min(cap),
        4 => (m + a).min(cap),
        5 => rng.range(0, cap),
        _ => rng.range(0, hi),
    }
}

/// A valid value + canonical-or-not image of it in a buffer of `n` bytes (n chosen around the extent).
pub fn valid_image(d: &Desc, rng: &mut Rng, budget: usize) -> (Value, Vec<u8>, usize) {
    for _ in 0..8 {
        let v = gen_value(d, rng, budget);
        let opts = if rng.chance(1, 3) {
            EncOpts { flex: FlexForm::Terminated, extra_room: rng.below(3) as usize }
        } else {
            EncOpts { flex: FlexForm::Canonical, extra_room: if rng.chance(1, 4) { 1 } else { 0 } }
        };
        // measure the space this encoding needs
        let bound = content_bound(d, &v) + 64 + 8 * d.align() * (v_items(&v) + 1) * (opts.extra_room + 1);
        let mut probe = vec![0u8; bound];
        let used = match encode_into(d, &v, &mut probe, 0, bound, &opts) {
            Ok(u) => u,
            Err(_) => continue,
        };
        let ext = if d.is_sized() { d.size() } else { ceil_to(used, d.align()) };
        let a = d.align();
        let n = match rng.below(6) {
            0 | 1 => ext,
            2 => ext + rng.range(1, 2 * a),
            3 => ext + a,
            4 => ext + rng.range(0, 64),
            _ => ext + a * rng.range(0, 4),
        };
        if let Ok(img) = encode(d, &v, n, &opts, rng) {
            return (v, img, ext);
        }
    }
    // fall back to the default-ish smallest value
    let v = smallest_value(d);
    let ext = extent_of(d, &v);
    let img = encode(d, &v, ext, &EncOpts::default(), rng).expect("harness: smallest value must encode");
    (v, img, ext)
}

fn v_items(v: &Value) -> usize {
    match v {
        Value::Seq(f) | Value::Struct(f) | Value::Arr(f) | Value::Var(_, f) => f.len() + f.iter().map(v_items).sum::<usize>(),
        _ => 0,
    }
}

pub use crate::model::smallest_value;

/// Replace one header / constrained field of a valid image by a boundary value.
pub fn mutate_header(d: &Desc, img: &mut Vec<u8>, rng: &mut Rng) -> Option<&'static str> {
    let dec = decode(d, img, true).ok()?;
    let cands: Vec<&Rec> = dec.parsed.recs.iter().filter(|r| r.kind != RecKind::Scalar).collect();
    if cands.is_empty() {
        return None;
    }
    let r = (*rng.pick(&cands)).clone();
    let n = img.len();
    let rem = n - r.off;
    let lmax: u128 = if r.len >= 16 { u128::MAX } else { (1u128 << (8 * r.len)) - 1 };
    match r.kind {
        RecKind::LenHdr | RecKind::FlexOff => {
            let choices: [u128; 12] = [
                0,
                1,
                2,
                (rem as u128).saturating_sub(1),
                rem as u128,
                rem as u128 + 1,
                lmax - 1,
                lmax,
                (r.len as u128).max(1) - 1,
                r.len as u128,
                rng.next() as u128 & lmax,
                rng.below(2 * rem as u64 + 2) as u128,
            ];
            let x = *rng.pick(&choices) & lmax;
            // endianness of the header: find it from the shape is awkward here; write in the
            // byte order that the original bytes are consistent with (try native first).
            let endian = header_endian(d, &r.path, r.kind);
            write_uint(&mut img[r.off..r.off + r.len], endian, x);
            Some(if r.kind == RecKind::LenHdr { "mut-len" } else { "mut-offset" })
        }
        RecKind::Tag => {
            let cur = read_uint(&img[r.off..r.off + r.len], Endian::Native);
            let choices: [u128; 6] = [cur + 1, cur.wrapping_sub(1) & lmax, lmax, 0, rng.below(8) as u128, rng.next() as u128 & lmax];
            write_uint(&mut img[r.off..r.off + r.len], Endian::Native, *rng.pick(&choices) & lmax);
            Some("mut-tag")
        }
        RecKind::Bool => {
            img[r.off] = *rng.pick(&[2u8, 0xff, 0x80, 3, 1, 0]);
            Some("mut-bool")
        }
        RecKind::StrData => {
            let i = r.off + rng.below(r.len as u64) as usize;
            img[i] = *rng.pick(&[0xffu8, 0x80, 0xc0, 0xe2, 0xf0, 0xbf]);
            Some("mut-utf8")
        }
        RecKind::Scalar => None,
    }
}

/// Byte order of the length / offset header of the container at `path`.
pub fn header_endian(d: &Desc, path: &[u32], _kind: RecKind) -> Endian {
    fn go(d: &Desc, path: &[u32], cur: Option<&Value>) -> Endian {
        let _ = cur;
        match d {
            Desc::Vec { elem, len } => match path.split_first() {
                None => len.endian,
                Some((_, rest)) => go(elem, rest, None),
            },
            Desc::Str { len } => len.endian,
            Desc::Flex { item, len } => match path.split_first() {
                None => len.endian,
                Some((_, rest)) => go(item, rest, None),
            },
            Desc::Array(e, _) => match path.split_first() {
                None => Endian::Native,
                Some((_, rest)) => go(e, rest, None),
            },
            Desc::Struct { fields, .. } => match path.split_first() {
                None => Endian::Native,
                Some((i, rest)) => go(&fields[*i as usize], rest, None),
            },
            Desc::Enum { variants, .. } => match path.split_first() {
                None => Endian::Native,
                Some((i, rest)) => {
                    // the variant is not known from the path alone: search the variant that has field i of a container kind
                    for v in variants {
                        if let Some(f) = v.get(*i as usize) {
                            if !rest.is_empty() || matches!(f, Desc::Vec { .. } | Desc::Str { .. } | Desc::Flex { .. }) {
                                return go(f, rest, None);
                            }
                        }
                    }
                    Endian::Native
                }
            },
            _ => Endian::Native,
        }
    }
    go(d, path, None)
}

/// One hostile / boundary input for shape `d`.
pub fn gen_input(d: &Desc, rng: &mut Rng, maxlen: usize) -> Input {
    let a = d.align();
    let off = pick_offset(a, rng);
    let budget = (maxlen / 3).clamp(8, 96);
    match rng.below(14) {
        0 => {
            let n = boundary_len(d, rng, maxlen);
            let mut b = vec![0u8; n];
            rng.fill(&mut b);
            Input { bytes: b, off, kind: "random" }
        }
        1 | 2 => {
            let n = boundary_len(d, rng, maxlen);
            let b = (0..n).map(|_| small_byte(rng)).collect();
            Input { bytes: b, off, kind: "random-small" }
        }
        3 | 4 => {
            let (_, img, _) = valid_image(d, rng, budget);
            Input { bytes: img, off, kind: "valid" }
        }
        5 | 6 => {
            let (_, mut img, _) = valid_image(d, rng, budget);
            let k = rng.range(0, img.len());
            img.truncate(k);
            Input { bytes: img, off, kind: "valid-trunc" }
        }
        7 => {
            let (_, mut img, ext) = valid_image(d, rng, budget);
            img.truncate(ext);
            let extra = rng.range(0, 3 * a + 8);
            for _ in 0..extra {
                img.push(small_byte(rng));
            }
            Input { bytes: img, off, kind: "valid-ext" }
        }
        8..=11 => {
            let (_, mut img, _) = valid_image(d, rng, budget);
            let kind = mutate_header(d, &mut img, rng).unwrap_or("valid");
            if rng.chance(1, 4) {
                let k = rng.range(0, img.len());
                img.truncate(k);
            }
            Input { bytes: img, off, kind }
        }
        12 => {
            // two mutations
            let (_, mut img, _) = valid_image(d, rng, budget);
            let _ = mutate_header(d, &mut img, rng);
            let kind = mutate_header(d, &mut img, rng).unwrap_or("valid");
            Input { bytes: img, off, kind }
        }
        _ => {
            // valid image with random byte flips
            let (_, mut img, _) = valid_image(d, rng, budget);
            let flips = rng.range(1, 3);
            for _ in 0..flips {
                if !img.is_empty() {
                    let i = rng.below(img.len() as u64) as usize;
                    img[i] = small_byte(rng);
                }
            }
            Input { bytes: img, off, kind: "flip" }
        }
    }
}
