#!/usr/bin/env python3
"""Generator of #[flat] definitions ("the zoo") plus the glue (impl Shape) the
harness needs to drive them.  Deterministic from its arguments.

  zoo.py fixed  <out.rs>          systematic corpus (committed)
  zoo.py random <out.rs> <seed> <count>   grammar-random batch (thorough tier)

The generator knows nothing about layout: every number the reference model
uses is computed in Rust from `Desc`, which the generated code builds from
the field types.
"""
import random
import sys


class T:
    """A Rust type expression usable as a field."""

    def __init__(self, rust, sized=True, default=True, portable=False, zst=False, constrained=False, depth=0, flexable=True):
        self.rust = rust
        self.sized = sized
        self.default = default
        self.portable = portable
        self.zst = zst
        self.constrained = constrained
        self.depth = depth

    def __repr__(self):
        return self.rust


def G(t, g):
    """`t` as a field of a generic definition: the declaration says `g`, the instantiation is `t`."""
    import copy
    c = copy.copy(t)
    c.grust = g
    return c


def gr(f):
    return getattr(f, "grust", f.rust)


def prim(name, portable=False):
    return T(name, portable=portable)


NATIVE = {n: prim(n) for n in ["u8", "u16", "u32", "u64", "u128", "i8", "i16", "i32", "i64", "i128", "f32", "f64", "usize", "isize"]}
NATIVE["u8"].portable = True
NATIVE["i8"].portable = True
UNIT = T("()", portable=True, zst=True)
BOOL = T("Bool", portable=True, constrained=True)
PORT = {}
for e in ["le", "be"]:
    for n in ["U16", "U32", "U64", "I16", "I32", "I64", "F32", "F64"]:
        PORT[f"{e}::{n}"] = T(f"{e}::{n}", portable=True)

ALIGN_PRIMS = {1: "u8", 2: "u16", 4: "u32", 8: "u64", 16: "u128"}
NATIVE_LENS = ["u8", "u16", "u32", "u64", "usize"]
PORT_LENS = ["le::U16", "le::U32", "le::U64", "be::U16", "be::U32", "be::U64"]
ALL_LENS = NATIVE_LENS + PORT_LENS


def is_portable_len(l):
    return l == "u8" or "::" in l


def array(t, n):
    assert t.sized
    return T(f"[{t.rust}; {n}]", default=t.default and n <= 32, portable=t.portable, zst=(n == 0 or t.zst),
             constrained=t.constrained and n > 0, depth=t.depth)


def phantom(t):
    return T(f"PhantomData<{t.rust}>", portable=t.portable, zst=True)


def flat_vec(t, l):
    assert t.sized
    if t.zst and l not in ("u8", "u16", "le::U16", "be::U16"):
        # a vector of zero-sized items may legitimately hold L::MAX of them; keep loops over it short
        l = "u16"
    return T(f"FlatVec<{t.rust}, {l}>", sized=False, portable=t.portable and is_portable_len(l), constrained=t.constrained, depth=t.depth + 1)


def flat_string(l):
    return T(f"FlatString<{l}>", sized=False, portable=is_portable_len(l), constrained=True, depth=1)


def flex_vec(t, l):
    return T(f"FlexVec<{t.rust}, {l}>", sized=False, portable=t.portable and is_portable_len(l), constrained=t.constrained, depth=t.depth + 1)


class Zoo:
    def __init__(self, prefix):
        self.prefix = prefix
        self.items = []  # rust source chunks
        self.registry = []  # (rust type, name, sized, msg)
        self.count = 0
        self.seen_reg = set()
        self.generic_names = {}

    def fresh(self, kind):
        self.count += 1
        return f"{self.prefix}{kind}{self.count}"

    def register(self, t, msg=False):
        if t.rust in self.seen_reg:
            return
        self.seen_reg.add(t.rust)
        self.registry.append((t.rust, t.rust.replace(" ", ""), t.sized, msg))

    # -- structs ------------------------------------------------------------
    def generic_name(self, generic, kind):
        """(name, impl target, emit definition?) for a possibly generic definition"""
        if generic is None:
            n = self.fresh(kind)
            return n, n, True, "", ""
        key = generic["key"]
        first = key not in self.generic_names
        if first:
            self.generic_names[key] = self.fresh("G" + kind)
        n = self.generic_names[key]
        w = f" where {generic['where']}" if generic.get("where") else ""
        return n, f"{n}<{generic['args']}>", first, f"<{generic['decl']}>", w

    def struct(self, fields, sized=True, default=True, portable=False, tuple_=False, msg=False, register=True, comment="", generic=None):
        assert fields
        for f in fields[:-1]:
            assert f.sized, (fields,)
        assert fields[-1].sized == sized or not sized
        if not sized:
            assert not fields[-1].sized
        default = default and all(f.default for f in fields) and not (tuple_ and not sized)
        portable = portable and all(f.portable for f in fields)
        name, target, emit_def, gdecl, gwhere = self.generic_name(generic, "S" if sized else "U")
        fnames = [f"f{i}" for i in range(len(fields))]
        acc = [str(i) for i in range(len(fields))] if tuple_ else fnames
        attrs = []
        if not sized:
            attrs.append("sized = false")
        if default:
            attrs.append("default = true")
        if portable:
            attrs.append("portable = true")
        src = []
        if comment:
            src.append(f"// {comment}")
        if emit_def:
            src.append(f"#[flat({', '.join(attrs)})]" if attrs else "#[flat]")
            if sized:
                src.append("#[derive(Clone, PartialEq, PartialOrd)]")
            if tuple_:
                src.append(f"pub struct {name}{gdecl}({', '.join('pub ' + gr(f) for f in fields)}){gwhere};")
            else:
                src.append(f"pub struct {name}{gdecl}{gwhere} {{ {', '.join(f'pub {n}: {gr(f)}' for n, f in zip(fnames, fields))} }}")
        descs = ", ".join(f"<{f.rust} as Shape>::desc()" for f in fields)
        reads = ", ".join(f"self.{a}.read()" for a in acc)
        src.append(f"impl Shape for {target} {{")
        src.append(f"    fn desc() -> Desc {{ Desc::Struct {{ name: \"{name}\", fields: vec![{descs}], sized: {str(sized).lower()}, default: {str(default).lower()}, portable: {str(portable).lower()} }} }}")
        src.append(f"    fn read(&self) -> Value {{ Value::Struct(vec![{reads}]) }}")
        if sized:
            src.append("    fn with_emp<K: Kont<Self>>(v: &Value, _style: u64, k: K) -> K::Out { k.call(<Self as SizedShape>::make(v)) }")
        else:
            if tuple_:
                init = f"{name}Init(" + ", ".join(f"ValEmp::<{f.rust}>::new(&f[{i}], sub(style, {i}))" for i, f in enumerate(fields)) + ")"
            else:
                init = f"{name}Init {{ " + ", ".join(f"{n}: ValEmp::<{f.rust}>::new(&f[{i}], sub(style, {i}))" for i, (n, f) in enumerate(zip(fnames, fields))) + " }"
            src.append(f"    fn with_emp<K: Kont<Self>>(v: &Value, style: u64, k: K) -> K::Out {{ let f = v.fields(); k.call({init}) }}")
        if default:
            src.append("    fn default_emp<K: Kont<Self>>(k: K) -> Option<K::Out> { Some(k.call(<Self as FlatDefault>::default_emplacer())) }")
            if sized:
                src.append("    fn rust_default() -> Option<Value> { Some(<Self as Default>::default().read()) }")
        src.append("    fn impls_portable() -> bool { (&PortableProbe::<Self>(PhantomData)).impls_portable() }")
        src.append(f"    fn n_children(&self) -> usize {{ {len(fields)} }}")
        arms = " ".join(f"{i} => {{ f(&RefH(&self.{a})); true }}" for i, a in enumerate(acc))
        src.append(f"    fn child(&self, i: u32, f: &mut dyn FnMut(&dyn ShapeDyn)) -> bool {{ match i {{ {arms} _ => false }} }}")
        arms = " ".join(f"{i} => {{ f(&mut MutH(&mut self.{a})); true }}" for i, a in enumerate(acc))
        src.append(f"    fn child_mut(&mut self, i: u32, f: &mut dyn FnMut(&mut dyn ShapeDynMut)) -> bool {{ match i {{ {arms} _ => false }} }}")
        if sized:
            src.append("    fn op_self(&mut self, op: &Op) -> OpOut { match op { Op::Set(v) => { *self = <Self as SizedShape>::make(v); OpOut::Done } Op::Assign(..) => assign_op(self, op), _ => OpOut::NotApplicable } }")
        else:
            src.append("    fn op_self(&mut self, op: &Op) -> OpOut { assign_op(self, op) }")
            src.append("    fn consts() -> Vec<(&'static str, usize)> { vec![(\"LAST_FIELD_OFFSET\", Self::LAST_FIELD_OFFSET)] }")
        src.append("}")
        if sized:
            if tuple_:
                mk = f"{name}(" + ", ".join(f"<{f.rust} as SizedShape>::make(&f[{i}])" for i, f in enumerate(fields)) + ")"
            else:
                mk = f"{name} {{ " + ", ".join(f"{n}: <{f.rust} as SizedShape>::make(&f[{i}])" for i, (n, f) in enumerate(zip(fnames, fields))) + " }"
            src.append(f"impl SizedShape for {target} {{ fn make(v: &Value) -> Self {{ let f = v.fields(); {mk} }} }}")
        self.items.append("\n".join(src))
        t = T(target, sized=sized, default=default, portable=portable, constrained=any(f.constrained for f in fields),
              depth=max(f.depth for f in fields) + 1)
        if register:
            self.register(t, msg)
        return t

    # -- enums --------------------------------------------------------------
    def enum(self, variants, tag="u8", sized=True, default=0, portable=False, msg=False, register=True, comment="", generic=None):
        """variants: list of (style, [fields]) with style in 'unit','tuple','named'.
        default: index of a unit variant or None."""
        c_like = all(st == "unit" for st, _ in variants)
        for st, fs in variants:
            assert (st == "unit") == (len(fs) == 0)
            for f in fs[:-1]:
                assert f.sized
            if sized:
                assert all(f.sized for f in fs)
        if default is not None:
            assert variants[default][0] == "unit"
            if sized and not all(f.default for _, fs in variants for f in fs):
                # derive(Default) on a sized enum only needs the default variant; fields need no Default
                pass
        if not sized:
            assert not c_like
        portable = portable and all(f.portable for _, fs in variants for f in fs)
        name, target, emit_def, gdecl, gwhere = self.generic_name(generic, "E" if sized else "N")
        vnames = [f"V{i}" for i in range(len(variants))]
        attrs = []
        if not sized:
            attrs.append("sized = false")
        if tag != "u8":
            attrs.append(f'tag_type = "{tag}"')
        if default is not None:
            attrs.append("default = true")
        if portable:
            attrs.append("portable = true")
        src = []
        if comment:
            src.append(f"// {comment}")
        body = []
        for i, (st, fs) in enumerate(variants):
            d = "#[default] " if default == i else ""
            if st == "unit":
                body.append(f"{d}{vnames[i]}")
            elif st == "tuple":
                body.append(f"{d}{vnames[i]}({', '.join(gr(f) for f in fs)})")
            else:
                body.append(f"{d}{vnames[i]} {{ {', '.join(f'g{j}: {gr(f)}' for j, f in enumerate(fs))} }}")
        if emit_def:
            src.append(f"#[flat({', '.join(attrs)})]" if attrs else "#[flat]")
            if sized:
                src.append("#[derive(Clone, PartialEq, PartialOrd)]")
            src.append(f"pub enum {name}{gdecl}{gwhere} {{ {', '.join(body)} }}")
        tagsize = {"u8": 1, "u16": 2, "u32": 4}[tag]
        vdescs = ", ".join("vec![" + ", ".join(f"<{f.rust} as Shape>::desc()" for f in fs) + "]" for _, fs in variants)
        dflt = f"Some({default})" if default is not None else "None"

        def pat(i, prefix, binder="b"):
            st, fs = variants[i]
            if st == "unit":
                return f"{prefix}::{vnames[i]}"
            if st == "tuple":
                return f"{prefix}::{vnames[i]}({', '.join(f'{binder}{j}' for j in range(len(fs)))})"
            return f"{prefix}::{vnames[i]} {{ {', '.join(f'g{j}: {binder}{j}' for j in range(len(fs)))} }}"

        src.append(f"impl Shape for {target} {{")
        src.append(f"    fn desc() -> Desc {{ Desc::Enum {{ name: \"{name}\", tag: {tagsize}, variants: vec![{vdescs}], sized: {str(sized).lower()}, default: {dflt}, portable: {str(portable).lower()} }} }}")
        if sized:
            scrut, refp, mutp, scrut_mut = "self", name, name, "self"
        else:
            scrut, refp, mutp, scrut_mut = "self.as_ref()", f"{name}Ref", f"{name}Mut", "self.as_mut()"
        arms = " ".join(f"{pat(i, refp)} => Value::Var({i}, vec![{', '.join(f'b{j}.read()' for j in range(len(fs)))}])," for i, (st, fs) in enumerate(variants))
        src.append(f"    fn read(&self) -> Value {{ match {scrut} {{ {arms} }} }}")
        if sized:
            src.append("    fn with_emp<K: Kont<Self>>(v: &Value, _style: u64, k: K) -> K::Out { k.call(<Self as SizedShape>::make(v)) }")
        else:
            allf = [f for _, fs in variants for f in fs]
            fullty = f"{name}Init<{', '.join(f'ValEmp<{chr(39)}a, {f.rust}>' for f in allf)}>" if allf else f"{name}Init"
            full = "Full"
            arms = []
            for i, (st, fs) in enumerate(variants):
                embs = [f"ValEmp::<{f.rust}>::new(&f[{j}], sub(style, {j}))" for j, f in enumerate(fs)]
                if st == "unit":
                    a0 = f"{name}Init{vnames[i]}"
                    a1 = f"{full}::{vnames[i]}"
                elif st == "tuple":
                    a0 = f"{name}Init{vnames[i]}({', '.join(embs)})"
                    a1 = f"{full}::{vnames[i]}({', '.join(embs)})"
                else:
                    inner = ", ".join(f"g{j}: {e}" for j, e in enumerate(embs))
                    a0 = f"{name}Init{vnames[i]} {{ {inner} }}"
                    a1 = f"{full}::{vnames[i]} {{ {inner} }}"
                arms.append(f"({i}, 0) => k.call({a0}), ({i}, _) => k.call({a1}),")
            src.append("    fn with_emp<K: Kont<Self>>(v: &Value, style: u64, k: K) -> K::Out {")
            src.append("        let (idx, f) = match v { Value::Var(i, f) => (*i, f), _ => panic!(\"harness: enum value expected\") };")
            src.append("        let _ = f;")
            src.append(f"        type Full<'a> = {fullty};")
            src.append(f"        match (idx, style % 2) {{ {' '.join(arms)} _ => panic!(\"harness: bad variant index\") }}")
            src.append("    }")
        if default is not None:
            src.append("    fn default_emp<K: Kont<Self>>(k: K) -> Option<K::Out> { Some(k.call(<Self as FlatDefault>::default_emplacer())) }")
            if sized:
                src.append("    fn rust_default() -> Option<Value> { Some(<Self as Default>::default().read()) }")
        src.append("    fn impls_portable() -> bool { (&PortableProbe::<Self>(PhantomData)).impls_portable() }")
        arms = " ".join(f"{pat(i, refp, '_b')} => {len(fs)}," for i, (st, fs) in enumerate(variants))
        src.append(f"    fn n_children(&self) -> usize {{ match {scrut} {{ {arms} }} }}")
        arms = []
        for i, (st, fs) in enumerate(variants):
            inner = " ".join(f"{j} => {{ f(&RefH(b{j})); true }}" for j in range(len(fs)))
            arms.append(f"{pat(i, refp)} => match i {{ {inner} _ => false }},")
        src.append(f"    fn child(&self, i: u32, f: &mut dyn FnMut(&dyn ShapeDyn)) -> bool {{ let _ = &f; match {scrut} {{ {' '.join(arms)} }} }}")
        arms = []
        for i, (st, fs) in enumerate(variants):
            inner = " ".join(f"{j} => {{ f(&mut MutH(b{j})); true }}" for j in range(len(fs)))
            arms.append(f"{pat(i, mutp)} => match i {{ {inner} _ => false }},")
        src.append(f"    fn child_mut(&mut self, i: u32, f: &mut dyn FnMut(&mut dyn ShapeDynMut)) -> bool {{ let _ = &f; match {scrut_mut} {{ {' '.join(arms)} }} }}")
        if sized:
            src.append("    fn op_self(&mut self, op: &Op) -> OpOut { match op { Op::Set(v) => { *self = <Self as SizedShape>::make(v); OpOut::Done } Op::Assign(..) => assign_op(self, op), _ => OpOut::NotApplicable } }")
            src.append("    fn consts() -> Vec<(&'static str, usize)> { vec![(\"DATA_OFFSET\", Self::DATA_OFFSET)] }")
        else:
            src.append("    fn op_self(&mut self, op: &Op) -> OpOut { assign_op(self, op) }")
            mins = ", ".join(f"(\"DATA_MIN_SIZES[{i}]\", Self::DATA_MIN_SIZES[{i}])" for i in range(len(variants)))
            src.append(f"    fn consts() -> Vec<(&'static str, usize)> {{ vec![(\"DATA_OFFSET\", Self::DATA_OFFSET), {mins}] }}")
        src.append("}")
        if sized:
            arms = []
            for i, (st, fs) in enumerate(variants):
                mks = [f"<{f.rust} as SizedShape>::make(&f[{j}])" for j, f in enumerate(fs)]
                if st == "unit":
                    e = f"{name}::{vnames[i]}"
                elif st == "tuple":
                    e = f"{name}::{vnames[i]}({', '.join(mks)})"
                else:
                    e = f"{name}::{vnames[i]} {{ {', '.join(f'g{j}: {m}' for j, m in enumerate(mks))} }}"
                arms.append(f"{i} => {e},")
            src.append(f"impl SizedShape for {target} {{ fn make(v: &Value) -> Self {{ let (idx, f) = match v {{ Value::Var(i, f) => (*i, f), _ => panic!(\"harness: enum value expected\") }}; let _ = f; match idx {{ {' '.join(arms)} _ => panic!(\"harness: bad variant index\") }} }} }}")
        self.items.append("\n".join(src))
        t = T(target, sized=sized, default=default is not None, portable=portable, constrained=True,
              depth=max([f.depth for _, fs in variants for f in fs] + [0]) + 1)
        if register:
            self.register(t, msg)
        return t

    def render(self, fn_name):
        out = [
            "// @generated by gen/zoo.py -- do not edit",
            "#![allow(dead_code, unused_variables, unused_imports, non_camel_case_types, clippy::all)]",
            "use crate::model::{Desc, Value};",
            "use crate::shape::*;",
            "use core::marker::PhantomData;",
            "use flatty::{flat, portable::{be, le, Bool}, traits::*, FlatString, FlatVec, FlexVec};",
            "",
        ]
        out.extend(x + "\n" for x in self.items)
        out.append(f"pub fn {fn_name}() -> Vec<VT> {{")
        out.append("    vec![")
        for rust, name, sized, msg in self.registry:
            if sized:
                f = "vt_msg" if msg else "vt"
                out.append(f"        {f}::<{rust}>(\"{name}\", Some(<{rust} as flatty::FlatSized>::SIZE)),")
            else:
                f = "vt_msg" if msg else "vt"
                out.append(f"        {f}::<{rust}>(\"{name}\", None),")
        out.append("    ]")
        out.append("}")
        return "\n".join(out) + "\n"


def ap(a):
    return NATIVE[ALIGN_PRIMS[a]]


def fixed():
    z = Zoo("F")
    U8, U16, U32, U64, U128 = (NATIVE[x] for x in ["u8", "u16", "u32", "u64", "u128"])

    # bare leaves and arrays
    for n in ["u8", "u16", "u32", "u64", "u128", "i8", "i16", "i32", "i64", "i128", "f32", "f64", "usize"]:
        z.register(NATIVE[n], msg=(n in ("u8", "u32")))  # one-byte and four-byte sized messages
    z.register(UNIT)
    z.register(BOOL)
    for p in PORT.values():
        z.register(p)
    for t in [array(U8, 3), array(U16, 3), array(BOOL, 4), array(U8, 0), array(PORT["le::U32"], 2), array(array(U8, 3), 2)]:
        z.register(t)

    # 1. ordered pairs / triples of field alignments, sized structs
    aligns = [1, 2, 4, 8, 16]
    for a in aligns:
        for b in aligns:
            z.struct([ap(a), ap(b)], comment=f"align pair {a},{b}")
    for (a, b, c) in [(1, 2, 4), (4, 2, 1), (1, 8, 2), (16, 1, 2), (2, 16, 1), (1, 4, 16), (8, 1, 8), (1, 1, 2), (2, 1, 1), (4, 1, 8), (1, 16, 1), (8, 4, 2)]:
        z.struct([ap(a), ap(b), ap(c)], tuple_=(a + b) % 3 == 0, comment=f"align triple {a},{b},{c}")
    # repo test shape
    sized_struct = z.struct([U8, U16, U32, array(U64, 4)], comment="tests/sized_struct", msg=True)
    # with constrained leaves
    s_bool = z.struct([U32, BOOL, U16, BOOL], comment="struct with bools")
    s3 = z.struct([array(U8, 3), U16], default=True, comment="odd sized array field")

    # 2. sized enums: tag x payload alignment
    for tag in ["u8", "u16", "u32"]:
        for a in aligns:
            z.enum([("unit", []), ("tuple", [ap(a)]), ("named", [U8, ap(a)])], tag=tag, comment=f"sized enum tag {tag} payload align {a}")
    sized_enum = z.enum([("unit", []), ("tuple", [U16, U8]), ("named", [U8, U16]), ("tuple", [U32])], comment="tests/sized_enum", msg=True)
    c_like = z.enum([("unit", []), ("unit", [])], comment="tests/c_like_enum", msg=True)
    c_like3 = z.enum([("unit", []), ("unit", []), ("unit", [])], tag="u16", comment="c-like u16")
    e_bool = z.enum([("unit", []), ("tuple", [BOOL, U32]), ("named", [s_bool])], comment="enum with constrained payloads")
    e_nodefault = z.enum([("tuple", [U16]), ("named", [U8, U8])], default=None, comment="enum without default")
    s_nested = z.struct([U8, e_bool, U64, sized_enum], comment="struct nesting enums")
    z.register(array(e_bool, 3))

    # 3. bare containers: every tail kind x every length type
    for l in ALL_LENS:
        z.register(flat_vec(U8, l), msg=(l in ("u16", "le::U32")))
        z.register(flat_string(l), msg=(l in ("u8", "be::U16")))
        z.register(flex_vec(flat_vec(U8, "u8"), l), msg=(l in ("u16",)))
    for (t, l) in [(U32, "u16"), (U64, "u8"), (U16, "u32"), (U128, "u8"), (array(U8, 3), "u8"), (array(U16, 3), "u16"),
                   (array(U8, 3), "u32"), (s3, "u8"), (sized_struct, "u32"), (BOOL, "u8"), (e_bool, "u16"), (s_bool, "u8"),
                   (sized_enum, "u8"), (PORT["le::I32"], "le::U16"), (PORT["be::U64"], "u8"), (NATIVE["f32"], "u16"),
                   (NATIVE["i64"], "u64"), (U32, "le::U64"), (U16, "be::U32"), (c_like, "u8"), (NATIVE["i32"], "u16")]:
        z.register(flat_vec(t, l), msg=(t.rust, l) in {("i32", "u16"), ("u64", "u8")})
    z.register(flat_vec(UNIT, "u8"))
    # items larger than the length type's alignment but not a multiple of it (slot count of a directly mapped
    # FlatVec whose buffer length is not a multiple of the alignment: only whole alignment units may be occupied)
    for (t, l) in [(array(U16, 3), "u32"), (array(U8, 5), "u32"), (array(U8, 3), "u16"), (array(U16, 5), "u64"),
                   (array(U32, 3), "u64"), (array(U8, 9), "u64")]:
        z.register(flat_vec(t, l))
    # zero-sized items with a 64-bit length: a peer-controlled length must not turn validation into an endless loop
    z.register(T("FlatVec<(), u64>", sized=False, zst=False))
    z.register(T("FlatVec<[u16; 0], usize>", sized=False, zst=False))
    z.register(flat_vec(array(U8, 0), "u16"))
    for (t, l) in [(U32, "u8"), (U8, "u8"), (U64, "u16"), (sized_struct, "u16"), (BOOL, "u8"), (flat_string("u8"), "u8"),
                   (flat_string("u16"), "u32"), (flat_vec(U32, "u16"), "u16"), (flat_vec(U64, "u8"), "u8"), (flat_vec(BOOL, "u8"), "u16"),
                   (flat_vec(U16, "u32"), "u8"), (flat_vec(PORT["le::U16"], "le::U16"), "le::U16"), (e_bool, "u8")]:
        z.register(flex_vec(t, l), msg=(t.rust, l) in {("FlatVec<u32, u16>", "u16"), ("u32", "u8")})

    # 4. unsized structs: prefix alignment x tail kind
    for a in aligns:
        z.struct([ap(a), flat_vec(U8, "u8")], sized=False, comment=f"prefix align {a}, byte vec tail")
    for a in [1, 2, 4, 8]:
        z.struct([U8, flat_vec(ap(a), "u16")], sized=False, comment=f"u8 prefix, vec of align {a}", msg=(a == 4))
    # every ordered pair of prefix alignments in front of a byte-aligned tail (padding before a middle field)
    for a in aligns:
        for b in aligns:
            if a != b:
                z.struct([ap(a), ap(b), flat_vec(U8, "u8")], sized=False, tuple_=(a > b), comment=f"prefix aligns {a},{b}, byte vec tail")
    for (a, b, c) in [(1, 4, 2), (1, 8, 4), (2, 8, 1), (1, 2, 8), (4, 1, 2), (1, 16, 2)]:
        z.struct([ap(a), ap(b), flat_vec(ap(c), "u8")], sized=False, comment=f"prefix aligns {a},{b}, tail align {c}")
        z.enum([("unit", []), ("named", [ap(a), ap(b), flat_vec(ap(c), "u8")]), ("tuple", [ap(b), ap(a), ap(c)])], sized=False,
               comment=f"unsized enum, three-field variants aligns {a},{b},{c}")
    # three and four sized fields in front of the tail, with padding before a *middle* field and middle fields whose
    # size is not their alignment (arrays, portable scalars, small structs): the running offset is rounded per field
    odd3, pu32, s_u8u16 = array(U8, 3), PORT["le::U32"], z.struct([U8, U16], comment="size 4, align 2", register=False)
    for pre in [[U8, U32, U8], [U8, U64, U16], [U16, U8, U32], [U8, odd3, U16], [U16, pu32, U32], [U8, s_u8u16, U64], [U8, U16, U8, U32], [U32, odd3, odd3, U16],
                [U8, array(U16, 3), U8], [U8, PORT["be::U16"], U16, U8]]:
        z.struct(pre + [flat_vec(U8, "u8")], sized=False, comment="prefix " + ",".join(t.rust for t in pre))
        z.enum([("unit", []), ("tuple", pre + [flat_vec(U16, "u8")]), ("named", pre)], sized=False, comment="enum variants with fields " + ",".join(t.rust for t in pre))
    z.enum([("unit", []), ("tuple", [U8, odd3, U16, U64]), ("named", [U16, pu32, U8, U32])], comment="sized enum, four-field variants with odd-sized middle fields")
    unsized_struct = z.struct([U8, U16, flat_vec(U64, "u32")], sized=False, comment="tests/unsized_struct", msg=True)
    z.struct([U32, flat_vec(U8, "u8")], sized=False, tuple_=True, comment="D3 shape: tail align < struct align", msg=True)
    z.struct([U16, flat_string("u8")], sized=False, comment="string tail", msg=True)
    z.struct([U64, BOOL, flat_string("u16")], sized=False, comment="bool + string tail")
    z.struct([U8, flex_vec(flat_vec(U8, "u8"), "u8")], sized=False, comment="flex tail")
    z.struct([U32, flex_vec(U16, "u16")], sized=False, comment="flex of sized tail")
    z.struct([flat_vec(U8, "u16")], sized=False, comment="single tail field")
    z.struct([s_bool, e_bool, flat_vec(s_bool, "u8")], sized=False, comment="constrained prefix and elements")
    inner_u = z.struct([U16, flat_vec(U16, "u16")], sized=False, comment="inner unsized struct")
    z.struct([U64, inner_u], sized=False, comment="unsized struct nested as tail")
    z.struct([U8, U8, U8, flat_vec(U32, "u8")], sized=False, comment="three byte prefix")
    z.struct([array(U8, 3), flat_vec(array(U8, 3), "u8")], sized=False, comment="odd sizes")
    z.struct([U16, flat_vec(U8, "u8")], sized=False, default=False, comment="not default")
    z.struct([U32, flat_vec(array(U8, 3), "u8")], sized=False, comment="tail bytes not a multiple of the struct alignment")
    z.struct([U64, U8, flat_vec(array(U16, 3), "u16")], sized=False, comment="tail bytes not a multiple of the struct alignment (2)")
    z.struct([U128, flat_vec(UNIT, "u16")], sized=False, comment="zero-sized elements behind an aligned prefix")
    z.enum([("unit", []), ("named", [U32, flat_vec(array(U8, 3), "u8")])], sized=False, comment="enum variant with odd-sized tail elements")

    # 5. unsized enums: tag x payload alignment, tails
    for tag in ["u8", "u16", "u32"]:
        for a in aligns:
            z.enum([("unit", []), ("tuple", [ap(a)]), ("named", [U8, flat_vec(ap(a), "u8")])], tag=tag, sized=False,
                   comment=f"unsized enum tag {tag} payload align {a}")
    unsized_enum = z.enum([("unit", []), ("tuple", [U8, U16]), ("named", [U32, flat_vec(U8, "u16")])], sized=False,
                          comment="tests/unsized_enum", msg=True)
    test_msg = z.enum([("unit", []), ("tuple", [NATIVE["i32"]]), ("tuple", [flat_vec(NATIVE["i32"], "u16")])], sized=False,
                      comment="io TestMsg", msg=True)
    z.enum([("unit", []), ("tuple", [U8, U16]), ("named", [U8, U16, array(U8, 4)])], sized=False, comment="tests/unsized_sized_enum", msg=True)
    z.enum([("tuple", [flat_string("u8")]), ("unit", []), ("named", [BOOL, flat_string("u16")])], sized=False, default=1,
           comment="string tails, default in the middle", msg=True)
    z.enum([("tuple", [U8]), ("tuple", [flex_vec(flat_vec(U8, "u8"), "u8")]), ("unit", [])], sized=False, default=2, comment="flex tail in enum")
    z.enum([("tuple", [unsized_struct]), ("tuple", [U64]), ("unit", [])], sized=False, default=2, comment="unsized struct as variant tail")
    z.enum([("tuple", [e_bool, flat_vec(e_bool, "u8")]), ("unit", [])], sized=False, default=1, comment="constrained payload")
    z.enum([("tuple", [U16]), ("named", [U8, flat_vec(U8, "u8")])], sized=False, default=None, comment="unsized enum without default")
    z.enum([("unit", []), ("unit", []), ("tuple", [flat_vec(U8, "u16")])], sized=False, default=1, comment="default is the second unit variant")
    z.enum([("unit", []), ("tuple", [U32]), ("unit", []), ("unit", [])], sized=False, default=2, tag="u16", comment="default is a later unit variant, u16 tag")
    z.enum([("unit", []), ("unit", []), ("unit", []), ("tuple", [U8])], default=2, comment="sized enum, default is the third unit variant")
    # no unit variant and the smallest variant ends off the alignment: MIN_SIZE is DATA_OFFSET + min, rounded up
    z.enum([("tuple", [U32, flat_vec(U8, "u8")]), ("tuple", [U8, U8, U8])], sized=False, default=None, comment="unsized enum whose smallest variant has 3 bytes, align 4")
    z.enum([("tuple", [U64, flat_vec(U8, "u8")]), ("named", [U16, U8]), ("tuple", [array(U8, 5)])], sized=False, default=None, tag="u16",
           comment="unsized enum whose smallest variant has 3 bytes, align 8, u16 tag")
    z.enum([("tuple", [U16, flat_string("u8")]), ("tuple", [U8])], sized=False, default=None, comment="unsized enum whose smallest variant has 1 byte, align 2")
    inner_n = z.enum([("unit", []), ("tuple", [flat_vec(U16, "u8")])], sized=False, comment="inner unsized enum")
    z.struct([U32, inner_n], sized=False, comment="unsized enum nested as struct tail", msg=True)
    # an unsized enum whose variant tail is itself an unsized enum with variants of different minimal sizes: the inner
    # initialiser can refuse after the outer tag has been written (the other outer variants hold bytes that are no inner tag)
    inner_m = z.enum([("unit", []), ("tuple", [U32, flat_vec(U8, "u8")]), ("tuple", [array(U8, 7)]), ("tuple", [U64, U64])], sized=False,
                     comment="inner unsized enum, variant minimal sizes 0/5/7/16")
    z.enum([("unit", []), ("tuple", [array(U8, 12)]), ("tuple", [U8, inner_m]), ("named", [inner_m])], sized=False,
           comment="unsized enum nested as an enum variant tail", msg=True)
    z.enum([("tuple", [U64]), ("tuple", [inner_n]), ("unit", [])], sized=False, default=2, comment="unsized enum nested as enum tail (2)")
    mid_s = z.struct([U16, inner_m], sized=False, comment="struct ending in the inner enum")
    z.enum([("unit", []), ("tuple", [array(U16, 6)]), ("tuple", [mid_s])], sized=False, comment="enum > struct > enum tail chain")
    z.struct([U8, z.enum([("unit", []), ("tuple", [array(U8, 9)]), ("tuple", [inner_m])], sized=False, comment="middle enum of a struct > enum > enum chain")],
             sized=False, comment="struct > enum > enum tail chain")
    z.register(flex_vec(inner_n, "u16"))
    z.register(flex_vec(unsized_enum, "u8"))
    z.register(flex_vec(unsized_struct, "u16"))
    z.register(flex_vec(test_msg, "u16"), msg=True)
    z.register(flex_vec(flex_vec(U16, "u8"), "u16"))
    # items without bytes: a slot may be followed by nothing at all
    z.register(flex_vec(UNIT, "u8"))
    z.register(flex_vec(array(U16, 0), "u16"))
    z.register(flex_vec(flat_vec(U8, "u8"), "u8"), msg=True)

    # 4b. zero-sized fields that still have an alignment ([u64; 0] and friends) in the middle of a field list: C layout
    # rounds the position up for them, and the field behind them starts there
    z64, z32, z16 = array(U64, 0), array(U32, 0), array(U16, 0)
    z.struct([U8, z64, U8], comment="zero-sized align-8 field in the middle")
    z.struct([U16, z32, U8, U8], tuple_=True, comment="zero-sized align-4 field in the middle (tuple)")
    z.struct([U8, z16, BOOL, U8], comment="zero-sized align-2 field in front of a constrained field")
    z.struct([U8, z64, U8, flat_vec(U8, "u8")], sized=False, comment="zero-sized align-8 field in an unsized struct prefix")
    z.struct([U8, z32, flat_vec(U8, "u8")], sized=False, comment="zero-sized align-4 field right in front of the tail")
    z.enum([("unit", []), ("named", [U8, z32, U16]), ("tuple", [U16, z64, BOOL])], comment="sized enum, zero-sized aligned fields in variants")
    z.enum([("unit", []), ("named", [U8, z32, U8, flat_vec(U8, "u8")]), ("tuple", [U8, z16, U8])], sized=False,
           comment="unsized enum, zero-sized aligned fields in variants")
    # 4c. defaults that are not all-zero bytes inside arrays: enums whose #[default] variant is not the first
    c_def1 = z.enum([("unit", []), ("unit", []), ("unit", [])], default=1, comment="c-like enum, default is the second variant")
    e_def2 = z.enum([("tuple", [U16]), ("unit", []), ("unit", [])], default=2, tag="u16", comment="data enum, default is the third variant, u16 tag")
    z.struct([array(c_def1, 4), U8, e_def2], default=True, comment="sized struct with an array of non-zero-default enums")
    z.struct([array(c_def1, 4), array(e_def2, 3), flat_vec(U8, "u8")], sized=False, default=True,
             comment="unsized struct with arrays of non-zero-default enums")
    z.struct([U8, array(array(c_def1, 2), 2), flat_string("u8")], sized=False, default=True, comment="nested arrays of non-zero-default enums")
    z.enum([("unit", []), ("named", [array(e_def2, 2), flat_vec(U8, "u8")]), ("tuple", [array(c_def1, 3)])], sized=False,
           comment="unsized enum with arrays of non-zero-default enums in variants")

    # 5b. generic definitions (type and const parameters; the macro cannot take an unsized type parameter as the tail,
    # so tails are containers of a parameter), several instantiations each
    def generic_family(a, b, n, key, tail, tail_text):
        A, B = G(a, "A"), G(b, "B")
        inst = f"{a.rust}, {b.rust}, {n}"
        decl = "A: Flat + Default, B: Flat + Default, const N: usize"
        gs = z.struct([A, G(array(b, n), "[B; N]"), G(phantom(a), "PhantomData<A>"), B], default=(n <= 32),
                      generic=dict(key="gs", decl=decl, where="[B; N]: Default", args=inst), comment="generic sized struct <A, B, const N>")
        ge = z.enum([("unit", []), ("tuple", [A, B]), ("named", [G(array(b, n), "[B; N]")]), ("tuple", [G(gs, z.generic_names["gs"] + "<A, B, N>")])],
                    generic=dict(key="ge", decl=decl, where="[B; N]: Default", args=inst), comment="generic sized enum <A, B, const N>")
        tl = G(tail(b), tail_text)
        gu = z.struct([G(array(b, n), "[B; N]"), A, tl], sized=False, default=True,
                      generic=dict(key="gu" + key, decl=decl, where="[B; N]: Default", args=inst), comment=f"generic unsized struct <A, B, const N>, tail {tail_text}")
        z.enum([("unit", []), ("tuple", [A, tl]), ("named", [G(array(b, n), "[B; N]")]), ("tuple", [G(gu, z.generic_names["gu" + key] + "<A, B, N>")])], sized=False,
               generic=dict(key="gn" + key, decl=decl, where="[B; N]: Default", args=inst), comment=f"generic unsized enum <A, B, const N>, tail {tail_text}", msg=(n == 1))
    generic_family(U8, U64, 3, "v", lambda b: flat_vec(b, "u16"), "FlatVec<B, u16>")
    generic_family(U32, U8, 0, "v", lambda b: flat_vec(b, "u16"), "FlatVec<B, u16>")
    generic_family(U64, U16, 1, "x", lambda b: flex_vec(flat_vec(b, "u8"), "u16"), "FlexVec<FlatVec<B, u8>, u16>")
    generic_family(U16, U128, 2, "x", lambda b: flex_vec(flat_vec(b, "u8"), "u16"), "FlexVec<FlatVec<B, u8>, u16>")
    generic_family(U128, U16, 5, "v", lambda b: flat_vec(b, "u16"), "FlatVec<B, u16>")

    # 6. portable mirrors
    LU16, LU32, LU64 = PORT["le::U16"], PORT["le::U32"], PORT["le::U64"]
    BU16, BU32 = PORT["be::U16"], PORT["be::U32"]
    p_struct = z.struct([U8, LU16, LU32, array(LU64, 4)], portable=True, comment="tests/portable struct")
    p_struct2 = z.struct([BU32, BOOL, PORT["be::F64"], NATIVE["i8"], PORT["le::I16"]], portable=True, comment="portable be mix")
    p_enum = z.enum([("unit", []), ("tuple", [PORT["le::F32"], p_struct]), ("tuple", [p_struct])], portable=True, comment="tests/portable enum")
    z.enum([("unit", []), ("tuple", [BU16]), ("named", [BOOL, LU64])], portable=True, tag="u16", comment="portable enum, u16 tag")
    z.enum([("unit", []), ("tuple", [LU32])], portable=True, tag="u32", comment="portable enum, u32 tag")
    p_ustruct = z.struct([LU16, flat_vec(LU32, "le::U16")], sized=False, portable=True, comment="tests/portable unsized struct", msg=True)
    z.enum([("unit", []), ("tuple", [PORT["le::F32"], p_struct]), ("tuple", [p_ustruct])], sized=False, portable=True,
           comment="tests/portable unsized enum", msg=True)
    z.struct([p_enum, BOOL, flat_string("be::U16")], sized=False, portable=True, comment="portable string tail")
    z.struct([U8, flex_vec(flat_vec(BU16, "u8"), "le::U16")], sized=False, portable=True, comment="portable flex tail")
    z.enum([("unit", []), ("named", [p_struct2, flat_vec(p_struct2, "be::U32")])], sized=False, portable=True, tag="u8", comment="portable unsized enum 2")
    z.enum([("unit", []), ("tuple", [flat_vec(U8, "u8")])], sized=False, portable=True, tag="u16", comment="portable unsized enum, u16 tag")
    # generic definitions declared portable: they implement Portable only for portable arguments.  The first
    # instantiation of each (which emits the definition) is portable; the native ones must NOT be Portable.
    def portable_generic(a, b, n):
        A, B = G(a, "A"), G(b, "B")
        inst = f"{a.rust}, {b.rust}, {n}"
        decl = "A: Flat + Default, B: Flat + Default, const N: usize"
        z.struct([U8, A, G(array(b, n), "[B; N]"), B], portable=True, generic=dict(key="pgs", decl=decl, where="[B; N]: Default", args=inst),
                 comment="generic portable sized struct, a parameter as the last field")
        z.enum([("unit", []), ("tuple", [A, B]), ("named", [B, A]), ("tuple", [G(array(b, n), "[B; N]")])], portable=True,
               generic=dict(key="pge", decl=decl, where="[B; N]: Default", args=inst), comment="generic portable sized enum, parameters as last variant fields")
        z.struct([A, G(flat_vec(b, "le::U16"), "FlatVec<B, le::U16>")], sized=False, portable=True,
                 generic=dict(key="pgu", decl=decl, where="[B; N]: Default", args=inst), comment="generic portable unsized struct, vector of a parameter as the tail")
        z.enum([("unit", []), ("tuple", [B, A]), ("tuple", [A, G(flat_vec(b, "le::U16"), "FlatVec<B, le::U16>")])], sized=False, portable=True,
               generic=dict(key="pgn", decl=decl, where="[B; N]: Default", args=inst), comment="generic portable unsized enum")
    portable_generic(LU16, LU32, 2)
    portable_generic(BU32, U8, 3)
    portable_generic(LU16, U32, 1)   # native last field: a Flat type, but not a Portable one
    portable_generic(U16, LU32, 2)   # native first parameter
    portable_generic(U8, U64, 1)
    z.register(flat_vec(p_struct, "le::U16"))
    z.register(flat_vec(p_enum, "u8"))
    z.register(flex_vec(p_ustruct, "be::U16"))
    z.register(flex_vec(flat_string("le::U16"), "le::U32"))
    return z.render("zoo_fixed")


def random_zoo(seed, count):
    rnd = random.Random(seed)
    z = Zoo("R")

    def leaf(portable):
        if portable:
            pool = [NATIVE["u8"], NATIVE["i8"], BOOL, UNIT] + list(PORT.values())
        else:
            pool = [NATIVE[n] for n in ["u8", "u16", "u32", "u64", "u128", "i8", "i16", "i32", "i64", "f32", "f64"]] + [BOOL, UNIT] + \
                   [PORT["le::U16"], PORT["be::I32"], PORT["le::F64"]]
        return rnd.choice(pool)

    sized_items = {False: [], True: []}
    unsized_items = {False: [], True: []}

    def sized_ty(portable, depth):
        r = rnd.random()
        if depth <= 0 or r < 0.5:
            return leaf(portable)
        if r < 0.65:
            return array(sized_ty(portable, depth - 1), rnd.choice([0, 1, 2, 3, 4]))
        if r < 0.7:
            return phantom(leaf(portable))
        pool = sized_items[portable] if portable else sized_items[False] + sized_items[True]
        if pool and r < 0.9:
            return rnd.choice(pool)
        return make_sized(portable, depth - 1)

    def lens(portable):
        return rnd.choice([l for l in ALL_LENS if is_portable_len(l)] if portable else ALL_LENS)

    def unsized_ty(portable, depth):
        r = rnd.random()
        if r < 0.35:
            return flat_vec(sized_ty(portable, 1), lens(portable))
        if r < 0.5:
            return flat_string(lens(portable))
        if r < 0.75:
            if depth > 0 and rnd.random() < 0.6:
                it = unsized_ty(portable, depth - 1)
            else:
                it = sized_ty(portable, 1)
            return flex_vec(it, lens(portable))
        pool = unsized_items[portable] if portable else unsized_items[False] + unsized_items[True]
        if pool and rnd.random() < 0.7:
            return rnd.choice(pool)
        return make_unsized(portable, depth - 1)

    def variants(portable, depth, sized):
        n = rnd.randint(1, 5)
        vs = []
        for _ in range(n):
            st = rnd.choice(["unit", "tuple", "named"])
            if st == "unit":
                vs.append(("unit", []))
                continue
            k = rnd.randint(1, 3)
            fs = [sized_ty(portable, depth) for _ in range(k)]
            if not sized and rnd.random() < 0.6:
                fs[-1] = unsized_ty(portable, depth)
            vs.append((st, fs))
        if all(st == "unit" for st, _ in vs) and not sized:
            vs.append(("tuple", [unsized_ty(portable, depth)]))
        units = [i for i, (st, _) in enumerate(vs) if st == "unit"]
        d = rnd.choice(units) if units and rnd.random() < 0.8 else None
        return vs, d

    def make_sized(portable, depth):
        if rnd.random() < 0.55:
            fs = [sized_ty(portable, depth) for _ in range(rnd.randint(1, 5))]
            t = z.struct(fs, portable=portable, default=rnd.random() < 0.8, tuple_=rnd.random() < 0.3)
        else:
            vs, d = variants(portable, depth, True)
            t = z.enum(vs, tag=rnd.choice(["u8", "u8", "u16", "u32"]), default=d, portable=portable)
        sized_items[portable].append(t)
        return t

    def make_unsized(portable, depth):
        if rnd.random() < 0.5:
            fs = [sized_ty(portable, depth) for _ in range(rnd.randint(0, 4))] + [unsized_ty(portable, depth)]
            t = z.struct(fs, sized=False, portable=portable, default=rnd.random() < 0.8, tuple_=rnd.random() < 0.3, msg=rnd.random() < 0.1)
        else:
            vs, d = variants(portable, depth, False)
            t = z.enum(vs, tag=rnd.choice(["u8", "u8", "u16", "u32"]), sized=False, default=d, portable=portable, msg=rnd.random() < 0.1)
        unsized_items[portable].append(t)
        return t

    while z.count < count:
        portable = rnd.random() < 0.25
        if rnd.random() < 0.4:
            make_sized(portable, 2)
        else:
            make_unsized(portable, 2)
        if rnd.random() < 0.3:
            z.register(unsized_ty(portable, 1))
    return z.render("zoo_rand")


def main():
    mode = sys.argv[1]
    out = sys.argv[2]
    if mode == "fixed":
        src = fixed()
    elif mode == "random":
        src = random_zoo(int(sys.argv[3]), int(sys.argv[4]))
    elif mode == "empty":
        src = "// @generated placeholder\nuse crate::shape::VT;\npub fn zoo_rand() -> Vec<VT> { Vec::new() }\n"
    else:
        raise SystemExit("usage")
    with open(out, "w") as f:
        f.write(src)


if __name__ == "__main__":
    main()
