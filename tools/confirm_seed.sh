#!/bin/bash
# confirm_seed.sh <ID> <agent_out_dir> : independently confirm a seeded change in a scratch worktree
# (tests pass with it, demo fails with it, demo passes without it), then store it under /verif/seeded/<ID>/
set -u
ID=$1; SRC=$2
W=/tmp/confirm_$ID
rm -rf $W; git -C /repo worktree prune; git -C /repo worktree add -q --detach $W HEAD || exit 2
cd $W
export CARGO_TARGET_DIR=/tmp/confirm_target
REL=""; grep -q -- "--release" $SRC/README.md && REL="--release"
run_demo() {
  if grep -q "io/tests" $SRC/README.md; then
    mkdir -p io/tests; cp $SRC/demo.rs io/tests/seed_demo.rs
    cargo test $REL -p flatty-io --offline --test seed_demo >/tmp/confirm_$ID.demo.log 2>&1; rc=$?
    rm -rf io/tests
  elif grep -q "portable/tests" $SRC/README.md; then
    mkdir -p portable/tests; cp $SRC/demo.rs portable/tests/seed_demo.rs
    cargo test $REL -p flatty-portable --offline --test seed_demo >/tmp/confirm_$ID.demo.log 2>&1; rc=$?
    rm -rf portable/tests
  elif grep -q "containers/tests" $SRC/README.md; then
    mkdir -p containers/tests; cp $SRC/demo.rs containers/tests/seed_demo.rs
    cargo test $REL -p flatty-containers --offline --test seed_demo >/tmp/confirm_$ID.demo.log 2>&1; rc=$?
    rm -rf containers/tests
  elif grep -q "portable/src/seed_demo.rs" $SRC/README.md; then
    cp $SRC/demo.rs portable/src/seed_demo.rs; printf '\n#[cfg(test)]\nmod seed_demo;\n' >> portable/src/lib.rs
    cargo test $REL -p flatty-portable --offline seed_demo >/tmp/confirm_$ID.demo.log 2>&1; rc=$?
    rm portable/src/seed_demo.rs; git checkout -q portable/src/lib.rs
  elif grep -q "io/src/tests" $SRC/README.md; then
    cp $SRC/demo.rs io/src/tests/seed_demo.rs; echo "mod seed_demo;" >> io/src/tests/mod.rs
    cargo test $REL -p flatty-io --offline seed_demo >/tmp/confirm_$ID.demo.log 2>&1; rc=$?
    rm io/src/tests/seed_demo.rs; git checkout -q io/src/tests/mod.rs
  else
    cp $SRC/demo.rs tests/src/seed_demo.rs; echo "mod seed_demo;" >> tests/src/lib.rs
    cargo test $REL -p flatty-tests --offline seed_demo >/tmp/confirm_$ID.demo.log 2>&1; rc=$?
    rm tests/src/seed_demo.rs; git checkout -q tests/src/lib.rs
  fi
  grep -E "^test result|error\[" /tmp/confirm_$ID.demo.log | head -3
  return $rc
}
echo "== demo WITHOUT patch (must pass)"; run_demo; A=$?
git apply $SRC/patch.diff || { echo "patch does not apply"; exit 2; }
echo "== test suite WITH patch (must pass)"; cargo test --workspace --offline >/tmp/confirm_$ID.suite.log 2>&1; S=$?
grep -E "^test result" /tmp/confirm_$ID.suite.log | awk '{p+=$4; f+=$6} END {print "passed",p,"failed",f}'
echo "== demo WITH patch (must fail)"; run_demo; B=$?
cd /; git -C /repo worktree remove --force $W
if [ $A -eq 0 ] && [ $S -eq 0 ] && [ $B -ne 0 ]; then
  mkdir -p /verif/seeded/$ID; cp $SRC/patch.diff $SRC/demo.rs $SRC/README.md /verif/seeded/$ID/ 
  python3 - $ID $SRC <<'PY'
import json,sys
i,src=sys.argv[1],sys.argv[2]
m=json.load(open(src+'/meta.json'))
m['confirmed']={"suite_with_patch":"pass","demo_with_patch":"fail","demo_without_patch":"pass","how":"tools/confirm_seed.sh in a fresh scratch worktree of /repo HEAD"}
json.dump(m,open(f'/verif/seeded/{i}/meta.json','w'),indent=1)
PY
  echo "CONFIRMED $ID"
else
  echo "NOT CONFIRMED $ID (demo-without=$A suite=$S demo-with=$B)"
fi
