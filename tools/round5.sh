#!/bin/bash
# round5.sh <PID> ... : confirm the sub-agent's output in /tmp/w$ROUND/out/<PID> as seed <PID>-$ROUND (default 5),
# then run the registered quick check against it
R=${ROUND:-5}
mkdir -p /tmp/w$R/results
for p in "$@"; do
  id=$p-$R
  if [ ! -d /verif/seeded/$id ]; then
    /verif/tools/confirm_seed.sh $id /tmp/w$R/out/$p > /tmp/w$R/results/$id.confirm 2>&1
  fi
  if [ -d /verif/seeded/$id ]; then
    python3 /verif/tools/seedtest.py /verif/seeded/$id > /tmp/w$R/results/$id.test 2>&1
    echo "$id: $(head -3 /tmp/w$R/results/$id.test | tr '\n' ' ' | cut -c1-300)"
  else
    echo "$id: NOT CONFIRMED $(tail -1 /tmp/w$R/results/$id.confirm)"
  fi
done
