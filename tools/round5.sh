#!/bin/bash
# round5.sh <PID> ... : confirm the sub-agent's output in /tmp/w5/out/<PID> as seed <PID>-5, then run the registered quick check against it
mkdir -p /tmp/w5/results
for p in "$@"; do
  id=$p-5
  if [ ! -d /verif/seeded/$id ]; then
    /verif/tools/confirm_seed.sh $id /tmp/w5/out/$p > /tmp/w5/results/$id.confirm 2>&1
  fi
  if [ -d /verif/seeded/$id ]; then
    python3 /verif/tools/seedtest.py /verif/seeded/$id > /tmp/w5/results/$id.test 2>&1
    echo "$id: $(tail -n +1 /tmp/w5/results/$id.test | head -3 | tr '\n' ' ' | cut -c1-300)"
  else
    echo "$id: NOT CONFIRMED $(tail -1 /tmp/w5/results/$id.confirm)"
  fi
done
