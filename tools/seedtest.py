#!/usr/bin/env python3
"""Run the registered quick check of a property against a seeded mutant.

  tools/seedtest.py <seed_dir> [<prop> ...] [--cfgs debug,release]

Applies <seed_dir>/patch.diff to /repo, runs ./check <prop> --tier quick for the
property named in meta.json (or the ones given), restores /repo, and appends the
outcome to <seed_dir>/result.json.  Exit 0 if at least one check reported a
VIOLATION (the mutant is caught)."""
import json
import os
import subprocess
import sys
import time

HERE = os.path.dirname(os.path.dirname(os.path.abspath(__file__)))


def main():
    argv = sys.argv[1:]
    cfgs = None
    if "--cfgs" in argv:
        i = argv.index("--cfgs")
        cfgs = argv[i + 1]
        del argv[i:i + 2]
    seed = os.path.abspath(argv[0])
    meta = json.load(open(os.path.join(seed, "meta.json")))
    props = [p for p in argv[1:] if p.startswith("C")] or [meta["property"]]
    patch = os.path.join(seed, "patch.diff")
    st = subprocess.run(["git", "-C", "/repo", "status", "--porcelain"], capture_output=True, text=True).stdout.strip()
    if st:
        raise SystemExit("/repo is not clean:\n" + st)
    subprocess.check_call(["git", "-C", "/repo", "apply", patch])
    results = []
    caught = False
    try:
        for p in props:
            env = dict(os.environ)
            if cfgs:
                env["VERIF_CFGS"] = cfgs
            t0 = time.time()
            r = subprocess.run([os.path.join(HERE, "check"), p, "--tier", "quick"], cwd=HERE, env=env, capture_output=True, text=True)
            lines = [l for l in r.stdout.splitlines() if l.startswith(("VIOLATION", "    C", "KNOWN", "INCONCLUSIVE", "[C"))]
            results.append({"property": p, "exit": r.returncode, "wall_s": round(time.time() - t0, 1), "cfgs": cfgs or "all", "lines": lines[:20]})
            print(f"{p}: exit {r.returncode} in {time.time() - t0:.0f}s")
            for l in lines[:12]:
                print("   ", l[:260])
            if r.returncode == 1:
                caught = True
    finally:
        subprocess.check_call(["git", "-C", "/repo", "checkout", "--", "."])
    path = os.path.join(seed, "result.json")
    old = json.load(open(path)) if os.path.exists(path) else []
    old.extend(results)
    json.dump(old, open(path, "w"), indent=1)
    sys.exit(0 if caught else 1)


if __name__ == "__main__":
    main()
