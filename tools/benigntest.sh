#!/bin/bash
# benigntest.sh <worktree> <prop>... : quick checks (debug+release) of the dev clone against a scratch repo holding a benign change
W=$1; shift
cd /tmp/vdev
for p in "$@"; do
  VERIF_REPO=$W VERIF_CFGS=debug,release ./check $p --tier quick 2>&1 | grep -E "^\[C|VIOLATION|^    C|INCONCL" | head -5 | cut -c1-400
done
