#!/usr/bin/env python3
"""Regenerate the table of seeded changes in DESIGN.md (between the SEED_TABLE markers) from seeded/*/."""
import glob
import json
import os
import re

HERE = os.path.dirname(os.path.dirname(os.path.abspath(__file__)))
NOTES = {
    "C07-1": "missed at first (only the documented 2x capacity was used): the monitored receiver now also runs with every capacity from 'largest message' up (the property says any capacity that can hold the largest message)",
    "C12-1": "missed at first (items never reached the sentinel size): the push generator now aims items at sealed offsets L::MAX-1, L::MAX, L::MAX+1 for u8 offsets, with enough buffer",
    "C17-1": "missed at first (values were only built by emplacers): new 'pushes' sub-workload builds portable values by FlexVec::push and compares with the serialiser after every push",
    "C01-2": "missed at first (no unsized shape had padding before a middle field): fixed zoo extended by all ordered pairs of prefix alignments in front of a tail, and three-field enum variants",
    "C20-2": "missed at first (no enum had a unit variant in front of the #[default] one): three such shapes added to the fixed zoo",
    "C05-2": "first run was INCONCLUSIVE (harness: extent_of of a generated value that cannot be sealed in a u8 offset); generator fixed, then caught",
    "C09-3p": "missed at first: every `assert!(!poisoned)` panic was classified as the documented refusal of a poisoned sender; now only cases with a write fault may end in that refusal (false alarm list #8)",
    "C15-3t": "missed at first: the harness re-validated FlatWrap's bytes before inspecting the wrapper, which hid the inconsistent wrapper; it is now inspected as returned (false alarm list #9)",
    "C14-4e": "missed at first by C14 (caught by C15, whose clause it also breaks): the history engine only constructs values that fit; new 'construct' sub-workload emplaces into slices of every length and watches the bytes behind the last whole multiple of the alignment",
    "C17-4j": "missed at first: needs a definition that is declared portable but has a native last field, which does not compile on the unchanged tree unless it is generic; the zoo now has generic portable definitions instantiated with native arguments and probes `impl Portable` by autoref specialisation",
    "C08-5": "would have been missed (messages were only ever sent as emplaced): strengthened on reading the change's description, before the first run - a third of the IO cases now use the guard's other paths (message replaced through DerefMut before send(), guard dropped unsent, raw bytes + assume_init)",
    "C11-5": "would have been missed (initialisers never had more than L::MAX elements): strengthened before the first run - FromArray<256>/<257>, FromIterator and FromStr with more elements than a one-byte length type can count; C11 observes the refusal at the construction of its histories, C15/C03 in their own zone",
    "C15-5": "same mechanism as C11-5; strengthened before the first run (zone `unrepresentable-content`)",
    "C20-5": "would have been missed (emptiness was read through len()/iter() only): strengthened before the first run - accessor agreement clause (is_empty/is_full/remaining/iter().count() vs len()/capacity()) in every engine that walks a view",
    "C03-6": "MISSED at first: release-only, and needs an item whose sealed offset is exactly L::MAX, which the value generator deliberately avoided (such a value must be refused). C03 and C15 now also construct unrepresentable contents (unsealable non-last item, more than L::MAX elements): whenever construction returns Ok the value must read back (C03), and an aligned buffer must answer InsufficientSize (C15)",
    "C02-6": "caught by Miri in the first run; natively only since the surroundings monitor (same slice validated again with the bytes around it set to 0x00 / 0xFF) that was added on reading the description",
    "C10-6": "same mechanism as C02-6",
    "C08-6": "strengthened before the first run: 'trickle' cases (24+ messages, uninterrupted short ready writes, wake-driven executor) reach the 128 consecutive ready writes the change needs; lost wake-up detected without a clock",
    "C16-7": "would have been missed (1 in 2^29 random integers): strengthened before the first run - conversion stimuli at, just below and just above the midpoints between neighbouring f32/f64 values for every exponent",
    "C17-7": "MISSED at first: the portable push workload never shrank an item, and size() was only compared with the serialiser for values built by pushes. The workload now also pops, truncates and edits inside items, and after every step copies as_bytes()[..size()] to an odd address where it must map to the same value ('can be mapped at any address')",
    "C10-8": "would have been missed (the receive loop stopped at the first terminal outcome): strengthened before the first run - recv is called up to two more times after Closed / Parse / an unretried Read error; every call has to return",
    "C16-8": "would have been missed (needs the operand pair (-2^31, -1) of the 64-bit types): strengthened before the first run - negative powers of two and their neighbours (the minima of the narrower types) are boundary operands of every integer type",
    "C17-8": "would have been missed (only generated definitions were probed for `impl Portable`): strengthened before the first run - the autoref probe is applied to 45 concrete library types (FlatString/FlatVec/FlexVec/arrays/PhantomData over native and portable parameters); whatever implements Portable must have alignment 1",
    "C04-8": "would have been missed by the quick tier (no fixed-zoo definition had a zero-sized field with an alignment in the middle): seven such definitions added to the fixed zoo before the first run",
    "C20-8": "would have been missed by the quick tier (no default=true definition had an array of enums whose default is not all-zero bytes): four such definitions added to the fixed zoo before the first run",
    "C04-9": "MISSED at first (no bare FlatVec in the fixed zoo had an item size larger than the length type's alignment without being a multiple of it; as a struct tail the outer floor hides the change): six such FlatVec shapes added to the fixed zoo, then caught by the C04 table (size_of_val <= slice)",
    "C10-2": "first run reported through a stale oracle parameter (buffer capacity of the case vs. of the oracle); fixed, then caught as the panic it is",
}


def main():
    rows = []
    for d in sorted(glob.glob(os.path.join(HERE, "seeded", "C*"))):
        sid = os.path.basename(d)
        meta = json.load(open(os.path.join(d, "meta.json")))
        res = json.load(open(os.path.join(d, "result.json"))) if os.path.exists(os.path.join(d, "result.json")) else []
        caught = [r for r in res if r["exit"] == 1]
        last = caught[-1] if caught else (res[-1] if res else None)
        sig = ""
        if last:
            for l in last["lines"]:
                m = re.match(r"\s+(C\d+\|[^ ]+)", l)
                if m:
                    sig = m.group(1)
                    break
        summary = re.sub(r"\s+", " ", meta["summary"])[:230]
        files = ", ".join(meta.get("files_changed", []))
        verdict = f"caught by {last['property']} quick ({last['cfgs']})" if caught else "NOT caught"
        note = NOTES.get(sid, "")
        rows.append(f"| {sid} | {meta['property']} | {files} | {summary} | {verdict}: `{sig}` | {note} |")
    table = "| seed | property | file | change | result | remark |\n|---|---|---|---|---|---|\n" + "\n".join(rows)
    p = os.path.join(HERE, "DESIGN.md")
    s = open(p).read()
    if "SEED_TABLE_PLACEHOLDER" in s:
        s = s.replace("SEED_TABLE_PLACEHOLDER", "<!-- SEED_TABLE_BEGIN -->\n" + table + "\n<!-- SEED_TABLE_END -->")
    else:
        s = re.sub(r"<!-- SEED_TABLE_BEGIN -->.*?<!-- SEED_TABLE_END -->", lambda m: "<!-- SEED_TABLE_BEGIN -->\n" + table + "\n<!-- SEED_TABLE_END -->", s, flags=re.S)
    open(p, "w").write(s)
    print(f"{len(rows)} seeds")


if __name__ == "__main__":
    main()
