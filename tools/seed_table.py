#!/usr/bin/env python3
"""Regenerate the table of seeded changes in DESIGN.md (between the SEED_TABLE markers) from seeded/*/."""
import glob
import json
import os
import re

HERE = os.path.dirname(os.path.dirname(os.path.abspath(__file__)))
NOTES = {
    "C07-1": "missed at first (only the documented 2x capacity was used): the monitored receiver now also runs with every capacity from 'largest message' up (the property says any capacity that can hold the largest message)",
    "C12-1": "missed at first (items never reached the sentinel size): the push generator now aims items at sealed offsets L::MAX-1, L::MAX, L::MAX+1 for u8 offsets, with enough buffer",
    "C17-1": "missed at first (values were only built by emplacers): new 'pushes' sub-workload builds portable values by FlexVec::push and compares with the serialiser after every push",
    "C01-2": "missed at first (no unsized shape had padding before a middle field): fixed zoo extended by all ordered pairs of prefix alignments in front of a tail, and three-field enum variants",
    "C20-2": "missed at first (no enum had a unit variant in front of the #[default] one): three such shapes added to the fixed zoo",
    "C05-2": "first run was INCONCLUSIVE (harness: extent_of of a generated value that cannot be sealed in a u8 offset); generator fixed, then caught",
    "C09-3p": "missed at first: every `assert!(!poisoned)` panic was classified as the documented refusal of a poisoned sender; now only cases with a write fault may end in that refusal (false alarm list #8)",
    "C15-3t": "missed at first: the harness re-validated FlatWrap's bytes before inspecting the wrapper, which hid the inconsistent wrapper; it is now inspected as returned (false alarm list #9)",
    "C14-4e": "missed at first by C14 (caught by C15, whose clause it also breaks): the history engine only constructs values that fit; new 'construct' sub-workload emplaces into slices of every length and watches the bytes behind the last whole multiple of the alignment",
    "C17-4j": "missed at first: needs a definition that is declared portable but has a native last field, which does not compile on the unchanged tree unless it is generic; the zoo now has generic portable definitions instantiated with native arguments and probes `impl Portable` by autoref specialisation",
    "C10-2": "first run reported through a stale oracle parameter (buffer capacity of the case vs. of the oracle); fixed, then caught as the panic it is",
}


def main():
    rows = []
    for d in sorted(glob.glob(os.path.join(HERE, "seeded", "C*"))):
        sid = os.path.basename(d)
        meta = json.load(open(os.path.join(d, "meta.json")))
        res = json.load(open(os.path.join(d, "result.json"))) if os.path.exists(os.path.join(d, "result.json")) else []
        caught = [r for r in res if r["exit"] == 1]
        last = caught[-1] if caught else (res[-1] if res else None)
        sig = ""
        if last:
            for l in last["lines"]:
                m = re.match(r"\s+(C\d+\|[^ ]+)", l)
                if m:
                    sig = m.group(1)
                    break
        summary = re.sub(r"\s+", " ", meta["summary"])[:230]
        files = ", ".join(meta.get("files_changed", []))
        verdict = f"caught by {last['property']} quick ({last['cfgs']})" if caught else "NOT caught"
        note = NOTES.get(sid, "")
        rows.append(f"| {sid} | {meta['property']} | {files} | {summary} | {verdict}: `{sig}` | {note} |")
    table = "| seed | property | file | change | result | remark |\n|---|---|---|---|---|---|\n" + "\n".join(rows)
    p = os.path.join(HERE, "DESIGN.md")
    s = open(p).read()
    if "SEED_TABLE_PLACEHOLDER" in s:
        s = s.replace("SEED_TABLE_PLACEHOLDER", "<!-- SEED_TABLE_BEGIN -->\n" + table + "\n<!-- SEED_TABLE_END -->")
    else:
        s = re.sub(r"<!-- SEED_TABLE_BEGIN -->.*?<!-- SEED_TABLE_END -->", lambda m: "<!-- SEED_TABLE_BEGIN -->\n" + table + "\n<!-- SEED_TABLE_END -->", s, flags=re.S)
    open(p, "w").write(s)
    print(f"{len(rows)} seeds")


if __name__ == "__main__":
    main()
