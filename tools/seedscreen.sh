#!/bin/bash
# seedscreen.sh <seed-id> <prop> <worktree-with-patch-applied> : run the dev clone's quick check (debug only) against a scratch repo
cd /tmp/vdev
VERIF_REPO=$3 VERIF_CFGS=debug ./check $2 --tier quick 2>&1 | grep -E "^\[C|VIOLATION|^    C|INCONCL" | head -4 | cut -c1-300
