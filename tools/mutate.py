#!/usr/bin/env python3
"""Mechanical mutation campaign against the checks (complements the hand-made seeded changes).

  mutate.py gen    [--root DIR]            enumerate single-token mutants of the library sources -> DIR/mutants.json
  mutate.py filter [--root DIR] [-j N]     keep the mutants that compile and pass the repository's own test suite
  mutate.py screen [--root DIR] [--verif CLONE] [--only ID,..] [--part k/n]
                                           run the quick checks (native debug monitor) against every survivor, most
                                           relevant property first, stop at the first check that reports a violation

Everything happens in scratch git worktrees of /repo under DIR (default /tmp/mut); /repo itself is never modified.
`screen` needs a clone / worktree of /verif with its own target directory (default /tmp/vdev) because it rebuilds
the harness against the scratch worktree (VERIF_REPO).  Results: DIR/status.json (filter), DIR/screen.json (screen).
"""
import concurrent.futures as cf
import json
import os
import re
import subprocess
import sys
import time

REPO = "/repo"
FILES = [
    "base/src/traits.rs", "base/src/emplacer.rs", "base/src/primitive.rs", "base/src/utils/iter.rs", "base/src/utils/mem.rs", "base/src/utils/mod.rs",
    "containers/src/vec.rs", "containers/src/flex.rs", "containers/src/string.rs", "containers/src/wrap.rs", "containers/src/bytes.rs",
    "io/src/common/io.rs", "io/src/blocking/io.rs", "io/src/blocking/recv.rs", "io/src/blocking/send.rs",
    "io/src/async_/io.rs", "io/src/async_/recv.rs", "io/src/async_/send.rs",
    "macros/src/items/base.rs", "macros/src/items/init.rs", "macros/src/items/tag.rs", "macros/src/items/unsized_.rs", "macros/src/items/unsized_enum.rs",
    "macros/src/items/align_as.rs", "macros/src/items/cast.rs", "macros/src/items/flat.rs", "macros/src/items/portable.rs",
    "portable/src/int.rs", "portable/src/float.rs", "portable/src/bool_.rs", "portable/src/lib.rs",
]
# which quick checks to try first for a mutant in a given file
RELEVANT = {
    "containers/src/vec.rs": ["C11", "C02", "C13", "C03", "C01", "C05", "C14", "C15", "C06", "C19", "C18", "C04", "C17", "C20", "C10", "C07"],
    "containers/src/string.rs": ["C11", "C02", "C13", "C03", "C01", "C05", "C19", "C14", "C15", "C06", "C18", "C04", "C17", "C20"],
    "containers/src/flex.rs": ["C12", "C02", "C13", "C03", "C01", "C05", "C14", "C06", "C15", "C19", "C18", "C17", "C04", "C20", "C10"],
    "containers/src/wrap.rs": ["C15", "C02", "C01", "C20", "C03", "C04"],
    "containers/src/bytes.rs": ["C02", "C01", "C03", "C04", "C05"],
    "base/": ["C02", "C04", "C03", "C01", "C05", "C15", "C18", "C06", "C19", "C14", "C12", "C11", "C20", "C13", "C17", "C10", "C07"],
    "macros/": ["C04", "C03", "C02", "C05", "C01", "C15", "C18", "C20", "C19", "C06", "C17", "C14", "C13", "C12", "C10", "C07"],
    "io/src/common": ["C07", "C08", "C10", "C09"],
    "io/src/blocking": ["C07", "C09", "C10", "C08"],
    "io/src/async_": ["C08", "C09", "C10", "C07"],
    "portable/": ["C16", "C17", "C02", "C03", "C11", "C12", "C19", "C01"],
}
ALL_PROPS = [f"C{i:02d}" for i in range(1, 21)]

SKIP_LINE = re.compile(r"^\s*(//|#\[|#!\[|use |pub use |mod |pub mod |extern |assert|debug_assert|unreachable|panic!|unimplemented)")
TYPEY = re.compile(r"\b(impl|where|fn|trait|type|dyn|struct|enum)\b|: *(Flat|Sized|\?Sized)|-> ")


def mutations_of_line(line):
    """yield (operator, new_line) for one source line"""
    if SKIP_LINE.match(line) or not line.strip():
        return
    out = []
    typey = bool(TYPEY.search(line))

    def sub_each(pattern, repl, op):
        for m in re.finditer(pattern, line):
            new = line[:m.start()] + (repl(m) if callable(repl) else repl) + line[m.end():]
            if new != line:
                out.append((op, new))

    if not typey:
        for a, b in [(" < ", " <= "), (" <= ", " < "), (" > ", " >= "), (" >= ", " > "), (" == ", " != "), (" != ", " == "), (" < ", " > "), (" >= ", " <= ")]:
            sub_each(re.escape(a), b, f"rel:{a.strip()}->{b.strip()}")
        sub_each(r" \+ 1\b", "", "arith:drop+1")
        sub_each(r" - 1\b", "", "arith:drop-1")
        sub_each(r" \+ (?!1\b)", " - ", "arith:+->-")
        sub_each(r" - (?!1\b)", " + ", "arith:-->+")
        sub_each(r" \* ", " / ", "arith:*->/")
        sub_each(r" / ", " * ", "arith:/->*")
        sub_each(r" % ", " / ", "arith:%->/")
        sub_each(r" && ", " || ", "bool:&&->||")
        sub_each(r" \|\| ", " && ", "bool:||->&&")
        sub_each(r" \+= ", " -= ", "arith:+=->-=")
        sub_each(r" -= ", " += ", "arith:-=->+=")
    sub_each(r"\bceil_mul\b", "floor_mul", "fn:ceil->floor")
    sub_each(r"\bfloor_mul\b", "ceil_mul", "fn:floor->ceil")
    sub_each(r"\bmin\(", "max(", "fn:min->max")
    sub_each(r"\bmax\(", "min(", "fn:max->min")
    sub_each(r"\bmin_value\(\)", "max_value()", "fn:min_value->max_value")
    sub_each(r"\bmax_value\(\)", "min_value()", "fn:max_value->min_value")
    sub_each(r"\bsaturating_sub\b", "wrapping_sub", "fn:saturating->wrapping")
    sub_each(r"\bis_some\(\)", "is_none()", "fn:is_some->is_none")
    sub_each(r"\bis_none\(\)", "is_some()", "fn:is_none->is_some")
    sub_each(r"\bis_ok\(\)", "is_err()", "fn:is_ok->is_err")
    sub_each(r"\bis_empty\(\)", "is_empty() == false", "fn:is_empty-negated")
    sub_each(r"\bALIGN\b", "SIZE", "const:ALIGN->SIZE") if not typey and "const " not in line else None
    sub_each(r"\bMIN_SIZE\b", "ALIGN", "const:MIN_SIZE->ALIGN") if not typey and "const " not in line else None
    sub_each(r"\bDATA_OFFSET\b", "L::SIZE", "const:DATA_OFFSET->L::SIZE") if "const " not in line and "L" in line else None
    sub_each(r"\bOFFSET_SIZE\b", "ALIGN", "const:OFFSET_SIZE->ALIGN") if "const " not in line else None
    sub_each(r"\btrue\b", "false", "lit:true->false")
    sub_each(r"\bfalse\b", "true", "lit:false->true")
    # if cond {  ->  if !(cond) {
    m = re.match(r"^(\s*(?:\} else )?if )(?!let\b)(.+?)( \{\s*)$", line)
    if m:
        out.append(("neg:if", f"{m.group(1)}!({m.group(2)}){m.group(3)}"))
    m = re.match(r"^(\s*while )(?!let\b)(.+?)( \{\s*)$", line)
    if m:
        out.append(("neg:while", f"{m.group(1)}!({m.group(2)}){m.group(3)}"))
    # statement deletion: assignments to places and bare method / function calls
    if re.match(r"^\s*(\*?[a-z_][\w\.\[\]\(\)\*]*)\s*(=|\+=|-=)\s[^=].*;\s*$", line) and not line.strip().startswith(("let ", "return", "const ", "type ", "pub ")):
        out.append(("del:assign", re.match(r"^\s*", line).group(0) + "// (deleted)\n"))
    elif re.match(r"^\s*[a-z_][\w\.:<>]*\(.*\);\s*$", line) and not line.strip().startswith(("let ", "return", "Ok(", "Err(", "Some(")):
        out.append(("del:call", re.match(r"^\s*", line).group(0) + "// (deleted)\n"))
    elif re.match(r"^\s*[a-z_][\w\.]*\.[a-z_]\w*\(.*\)\?;\s*$", line):
        out.append(("del:call?", re.match(r"^\s*", line).group(0) + "// (deleted)\n"))
    # small integer literals in arithmetic / comparisons
    if not typey and "[" not in line:
        sub_each(r"(?<=[ (])0(?=[;) ,])", "1", "lit:0->1")
        sub_each(r"(?<=[ (])1(?=[;) ,])", "2", "lit:1->2")
    seen = set()
    for op, new in out:
        if new not in seen:
            seen.add(new)
            yield op, new


ERRKINDS = ["InsufficientSize", "BadAlign", "InvalidEnumTag", "InvalidData", "Other"]


def mutations2_of_line(line):
    """second operator set (campaign 2): type-level constants, ranges, error kinds, dropped `?`/offset, accessor swaps"""
    if SKIP_LINE.match(line) or not line.strip():
        return
    out = []
    typey = bool(TYPEY.search(line))

    def sub_each(pattern, repl, op):
        for m in re.finditer(pattern, line):
            new = line[:m.start()] + (repl(m) if callable(repl) else repl) + line[m.end():]
            if new != line:
                out.append((op, new))

    # associated constants of type parameters, also on `const` lines (where layout constants are defined)
    sub_each(r"\b([A-Z]\w*|Self|<[^<>]+>)::SIZE\b", lambda m: m.group(1) + "::ALIGN", "assoc:SIZE->ALIGN")
    sub_each(r"\b([A-Z]\w*|Self|<[^<>]+>)::ALIGN\b", lambda m: m.group(1) + "::SIZE", "assoc:ALIGN->SIZE")
    sub_each(r"\b([A-Z]\w*|Self|<[^<>]+>)::MIN_SIZE\b", lambda m: m.group(1) + "::SIZE", "assoc:MIN_SIZE->SIZE") if "Sized" not in line else None
    sub_each(r"\bT::ALIGN\b", "L::ALIGN", "assoc:T->L")
    sub_each(r"\bL::ALIGN\b", "T::ALIGN", "assoc:L->T")
    sub_each(r"\bSelf::ALIGN\b", "T::ALIGN", "assoc:Self->T") if "T::" in line or "<T" in line else None
    sub_each(r"\bDATA_OFFSET\b", "OFFSET_SIZE", "const:DATA_OFFSET->OFFSET_SIZE") if "OFFSET_SIZE" in line else None
    sub_each(r"\bLAST_FIELD_OFFSET\b", "MIN_SIZE", "const:LAST_FIELD_OFFSET->MIN_SIZE")
    sub_each(r"\bDATA_OFFSET\b", "MIN_SIZE", "const:DATA_OFFSET->MIN_SIZE") if "const " not in line else None
    # ranges
    if not typey:
        sub_each(r"(?<=[\w\)\]])\.\.(?=[\w\(])", "..=", "range:..->..=")
        sub_each(r"\.\.=", "..", "range:..=->..")
    # error kinds
    for a in ERRKINDS:
        for b in ERRKINDS:
            if a != b and (a, b) in [("InsufficientSize", "BadAlign"), ("BadAlign", "InsufficientSize"), ("InsufficientSize", "InvalidData"),
                                     ("InvalidEnumTag", "InvalidData"), ("InvalidData", "InvalidEnumTag"), ("InvalidData", "InsufficientSize"),
                                     ("InvalidEnumTag", "InsufficientSize")]:
                sub_each(r"\bErrorKind::" + a + r"\b", "ErrorKind::" + b, f"kind:{a}->{b}")
    # error position handling
    sub_each(r"\.map_err\(\|e\| e\.offset\([^()]*(\([^()]*\)[^()]*)*\)\)", "", "del:offset")
    sub_each(r"\.offset\(([^()]*(\([^()]*\)[^()]*)*)\)", ".offset(0)", "offset->0")
    sub_each(r"\bpos: ([a-z_][\w\.\(\)]*)", "pos: 0", "pos->0")
    # accessor swaps
    for a, b in [("len()", "capacity()"), ("capacity()", "len()"), ("occupied_len()", "vacant_len()"), ("vacant_len()", "occupied_len()"),
                 ("window.start", "window.end"), ("window.end", "window.start"), ("remaining()", "capacity()"), ("is_full()", "is_empty()"),
                 ("first()", "last()"), ("split_at_mut(", "split_at_mut(1 + "), ("saturating_sub(", "wrapping_sub("), ("checked_sub(", "checked_add("),
                 ("checked_add(", "checked_sub("), ("checked_mul(", "checked_add("), ("to_usize()", "to_usize().map(|x| x + 1)"),
                 ("from_usize(", "from_usize(1 + "), ("Poll::Pending", "Poll::Ready(Ok(0))"), ("as_bytes()", "as_bytes().split_at(0).1"),
                 ("max_value()", "max_value() - L::one()"), ("L::zero()", "L::one()"), ("L::one()", "L::zero()"),
                 (".skip(", ".skip(1 + "), (".take(", ".take(1 + "), ("copy_within(", "copy_within(0 + "),
                 ("u8::MAX", "u8::MAX - 1"), ("usize::MAX", "usize::MAX - 1")]:
            sub_each(re.escape(a), b, f"swap:{a}->{b}")
    # `?` dropped (error ignored) on unit-valued calls; early returns removed
    m = re.match(r"^(\s*)([a-z_][\w\.:<>]*\(.*\))\?;\s*$", line)
    if m and not line.strip().startswith(("let ", "return")):
        out.append(("drop:?", f"{m.group(1)}let _ = {m.group(2)};\n"))
    m = re.match(r"^(\s*)return (Err|Ok|Poll::Ready)\(.*\);\s*$", line)
    if m:
        out.append(("del:return", m.group(1) + "// (deleted)\n"))
    # off-by-one on the right-hand side of comparisons with a non-literal
    if not typey:
        sub_each(r"( (?:<|<=|>|>=|==) )([a-zA-Z_][\w:\.]*(?:\(\))?)(?=[ \)\{;,])", lambda m: m.group(1) + "(" + m.group(2) + " + 1)", "obo:rhs+1")
    seen = set()
    for op, new in out:
        if new not in seen:
            seen.add(new)
            yield op, new


def swaps_of(lines):
    """adjacent-statement swaps: two consecutive single-line statements with equal indentation"""
    st = re.compile(r"^(\s*)(?!let |//|return|break|continue|\}|#|use |pub use |pub type |type |mod |pub mod |const |pub const |assert|debug_assert)[^\s].*;\s*$")
    for i in range(len(lines) - 1):
        a, b = st.match(lines[i]), st.match(lines[i + 1])
        if a and b and a.group(1) == b.group(1) and len(a.group(1)) >= 8 and lines[i].strip() != lines[i + 1].strip():
            yield i


def gen(root, opset=1):
    os.makedirs(root, exist_ok=True)
    muts = []
    first = set()
    if opset == 2:
        for f in FILES:
            for i, line in enumerate(open(os.path.join(REPO, f)).read().splitlines(keepends=True)):
                for op, new in mutations_of_line(line):
                    first.add((f, i + 1, new.rstrip("\n")))
    for f in FILES:
        p = os.path.join(REPO, f)
        lines = open(p).read().splitlines(keepends=True)
        in_test = False
        for i, line in enumerate(lines):
            if re.search(r"#\[cfg\((all\()?test\b", line):
                in_test = True
            if in_test:
                break
            for op, new in (mutations_of_line(line) if opset == 1 else mutations2_of_line(line)):
                if (f, i + 1, new.rstrip("\n")) in first:
                    continue
                muts.append({"id": len(muts), "file": f, "line": i + 1, "op": op, "old": line.rstrip("\n"), "new": new.rstrip("\n")})
        if opset == 2:
            n_code = next((k for k, l in enumerate(lines) if re.search(r"#\[cfg\((all\()?test\b", l)), len(lines))
            for i in swaps_of(lines[:n_code]):
                muts.append({"id": len(muts), "file": f, "line": i + 1, "op": "swap:stmts", "old": lines[i].rstrip("\n"),
                             "new": lines[i + 1].rstrip("\n"), "old2": lines[i + 1].rstrip("\n"), "new2": lines[i].rstrip("\n")})
    json.dump(muts, open(os.path.join(root, "mutants.json"), "w"), indent=0)
    by = {}
    for m in muts:
        by[m["file"]] = by.get(m["file"], 0) + 1
    for f, n in by.items():
        print(f"{n:5d} {f}")
    print(len(muts), "mutants")


def sh(cmd, cwd=None, env=None, timeout=None):
    """run in its own process group so that a timeout also kills grandchildren (spinning test binaries)"""
    import signal
    p = subprocess.Popen(cmd, cwd=cwd, env=env, stdout=subprocess.PIPE, stderr=subprocess.STDOUT, text=True, start_new_session=True)
    try:
        out, _ = p.communicate(timeout=timeout)
        return p.returncode, out
    except subprocess.TimeoutExpired:
        try:
            os.killpg(p.pid, signal.SIGKILL)
        except ProcessLookupError:
            pass
        out, _ = p.communicate()
        return 124, out


def ensure_worktree(path):
    if not os.path.isdir(path):
        rc, out = sh(["git", "-C", REPO, "worktree", "add", "--detach", path, "HEAD"])
        if rc:
            raise SystemExit(out)
    else:
        sh(["git", "-C", path, "checkout", "-q", "--detach", subprocess.run(["git", "-C", REPO, "rev-parse", "HEAD"], capture_output=True, text=True).stdout.strip()])
        sh(["git", "-C", path, "checkout", "--", "."])


def apply_mutant(wt, m):
    if not os.path.exists(os.path.join(wt, "Cargo.lock")) and os.path.exists(os.path.join(REPO, "Cargo.lock")):
        import shutil
        shutil.copy(os.path.join(REPO, "Cargo.lock"), os.path.join(wt, "Cargo.lock"))
    p = os.path.join(wt, m["file"])
    lines = open(p).read().splitlines(keepends=True)
    assert lines[m["line"] - 1].rstrip("\n") == m["old"], (m, lines[m["line"] - 1])
    lines[m["line"] - 1] = m["new"] + "\n"
    if "new2" in m:
        assert lines[m["line"]].rstrip("\n") == m["old2"]
        lines[m["line"]] = m["new2"] + "\n"
    open(p, "w").write("".join(lines))


def revert(wt):
    sh(["git", "-C", wt, "checkout", "--", "."])


def filter_worker(root, k, todo):
    wt = os.path.join(root, f"w{k}")
    ensure_worktree(wt)
    env = dict(os.environ, CARGO_TARGET_DIR=os.path.join(root, f"t{k}"), CARGO_NET_OFFLINE="true", CARGO_BUILD_JOBS="3")
    res = {}
    for m in todo:
        revert(wt)
        apply_mutant(wt, m)
        t0 = time.time()
        rc, out = sh(["cargo", "test", "--workspace", "--offline", "--no-run", "-q"], cwd=wt, env=env, timeout=900)
        if rc:
            res[m["id"]] = "compile-fail" if rc != 124 else "timeout-build"
        else:
            rc, out = sh(["cargo", "test", "--workspace", "--offline", "--no-fail-fast", "-q", "--", "--test-threads", "2"], cwd=wt, env=env, timeout=150)
            res[m["id"]] = "survived" if rc == 0 else ("timeout-test" if rc == 124 else "killed-by-tests")
        print(f"[w{k}] #{m['id']} {m['file']}:{m['line']} {m['op']}: {res[m['id']]} ({time.time() - t0:.0f}s)", flush=True)
        json.dump(res, open(os.path.join(root, f"status_w{k}.json"), "w"))
    revert(wt)
    return res


def filter_(root, jobs):
    muts = json.load(open(os.path.join(root, "mutants.json")))
    status_p = os.path.join(root, "status.json")
    status = json.load(open(status_p)) if os.path.exists(status_p) else {}
    for k in range(64):
        p = os.path.join(root, f"status_w{k}.json")
        if os.path.exists(p):
            status.update(json.load(open(p)))
    todo = [m for m in muts if str(m["id"]) not in status]
    print(len(todo), "mutants to filter")
    chunks = [todo[k::jobs] for k in range(jobs)]
    with cf.ThreadPoolExecutor(jobs) as ex:
        for r in ex.map(lambda a: filter_worker(root, a[0], a[1]), enumerate(chunks)):
            status.update({str(k): v for k, v in r.items()})
    json.dump(status, open(status_p, "w"), indent=0)
    cnt = {}
    for v in status.values():
        cnt[v] = cnt.get(v, 0) + 1
    print(cnt)


def relevant_props(f):
    for k, v in RELEVANT.items():
        if f.startswith(k):
            return v + [p for p in ALL_PROPS if p not in v]
    return ALL_PROPS


def screen(root, verif, only, part, tag=None):
    muts = {m["id"]: m for m in json.load(open(os.path.join(root, "mutants.json")))}
    status = json.load(open(os.path.join(root, "status.json")))
    k, n = part
    tag = tag if tag is not None else str(k)
    out_p = os.path.join(root, f"screen_{tag}.json")
    done = json.load(open(out_p)) if os.path.exists(out_p) else {}
    wt = os.path.join(root, f"ws{tag}")
    ensure_worktree(wt)
    ids = [int(i) for i, v in status.items() if v == "survived"]
    if only:
        ids = [i for i in ids if i in only]
    ids.sort()
    ids = ids[k::n]
    for i in ids:
        if str(i) in done and not only:
            continue
        m = muts[i]
        revert(wt)
        apply_mutant(wt, m)
        env = dict(os.environ, VERIF_REPO=wt, VERIF_CFGS="debug", VERIF_JOBS=os.environ.get("VERIF_JOBS", "4"), CARGO_BUILD_JOBS="4")
        tried, caught, t0 = [], None, time.time()
        for p in relevant_props(m["file"]):
            rc, out = sh([os.path.join(verif, "check"), p, "--tier", "quick"], cwd=verif, env=env, timeout=1500)
            lines = [l.strip()[:200] for l in out.splitlines() if l.startswith(("    C", "INCONCLUSIVE"))]
            tried.append({"prop": p, "exit": rc, "lines": lines[:3]})
            if rc == 1:
                caught = p
                break
        done[str(i)] = {"mutant": m, "caught_by": caught, "tried": tried, "wall_s": round(time.time() - t0)}
        print(f"#{i} {m['file']}:{m['line']} {m['op']}: {'caught by ' + caught if caught else 'NOT CAUGHT'} after {len(tried)} checks, {time.time() - t0:.0f}s", flush=True)
        json.dump(done, open(out_p, "w"), indent=0)
    revert(wt)


def main():
    a = sys.argv[1:]
    root = "/tmp/mut"
    verif = "/tmp/vdev"
    jobs = 5
    only = None
    if "--root" in a:
        root = a[a.index("--root") + 1]
    if "--verif" in a:
        verif = a[a.index("--verif") + 1]
    if "-j" in a:
        jobs = int(a[a.index("-j") + 1])
    if "--only" in a:
        only = [int(x) for x in a[a.index("--only") + 1].split(",")]
    part = (0, 1)
    if "--part" in a:
        x, y = a[a.index("--part") + 1].split("/")
        part = (int(x), int(y))
    if a[0] == "gen":
        gen(root)
    elif a[0] == "gen2":
        gen(root, 2)
    elif a[0] == "filter":
        filter_(root, jobs)
    elif a[0] == "screen":
        screen(root, verif, only, part, a[a.index("--tag") + 1] if "--tag" in a else None)


if __name__ == "__main__":
    main()
