#!/bin/bash
L=/tmp/vdev/benign_results.txt
: > $L
t() { W=$1; shift; echo "##### $W $*" >> $L; /tmp/vdev/tools/benigntest.sh /tmp/wb/$W "$@" >> $L 2>&1; }
t B02 C20 C03 C14 C13 C05
t B03 C19
t B04 C07 C08 C10
t B05 C09 C07
t B06 C05 C12 C13
t B07 C02 C06 C15
t B08 C16
t B09 C18 C14 C11
t B10 C11 C01 C02
t B12 C04 C03
echo DONE >> $L
